//go:build verif

package client

import (
	"sort"
	"time"

	"github.com/bbva/qed/protocol"
)

// VerifShardOrder decides the order in which the client walks the shards map of a discovery or
// redirect body (Go's own order is random): 0 ascending node id, 1 descending.
var VerifShardOrder int

func verifShardIDs(m map[string]protocol.ShardDetail) []string {
	ids := make([]string, 0, len(m))
	for id := range m {
		ids = append(ids, id)
	}
	sort.Strings(ids)
	if VerifShardOrder == 1 {
		for i, j := 0, len(ids)-1; i < j; i, j = i+1, j-1 {
			ids[i], ids[j] = ids[j], ids[i]
		}
	}
	return ids
}

type VerifEndpoint struct {
	URL  string
	Type string // primary | secondary
	Dead bool
}

// VerifTopology returns the client's view: believed primary, ordered endpoint list, round-robin cursor.
func (c *HTTPClient) VerifTopology() (string, []VerifEndpoint, int) {
	t := c.topology
	t.Lock()
	defer t.Unlock()
	p := ""
	if t.primary != nil {
		p = t.primary.URL()
		if t.primary.IsDead() {
			p += "(dead)"
		}
	}
	var out []VerifEndpoint
	for _, e := range t.endpoints {
		ty := "secondary"
		if e.nodeType == primary {
			ty = "primary"
		}
		out = append(out, VerifEndpoint{e.URL(), ty, e.IsDead()})
	}
	return p, out, t.cIndex
}

func (c *HTTPClient) VerifNextRead(pref ReadPref) (string, error) {
	e, err := c.topology.NextReadEndpoint(pref)
	if err != nil {
		return "", err
	}
	return e.URL(), nil
}

func (c *HTTPClient) VerifDiscover() error { return c.discover() }
func (c *HTTPClient) VerifHealthCheck()    { c.clusterHealthCheck(time.Second) }

func (c *HTTPClient) VerifMark(url string, dead bool) {
	for _, e := range c.topology.Endpoints() {
		if e.URL() == url {
			if dead {
				e.MarkAsDead()
			} else {
				e.MarkAsAlive()
			}
		}
	}
}
