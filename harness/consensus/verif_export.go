//go:build verif

package consensus

import (
	"time"

	"github.com/bbva/qed/crypto/hashing"
	"github.com/hashicorp/raft"
)

// VerifBarrier waits until the FSM has applied everything that was committed before the call.
func (n *RaftNode) VerifBarrier(d time.Duration) error { return n.raft.Barrier(d).Error() }

// Codec shims: the production encode/decode functions, exported for the wire-fidelity harness.

func VerifEncodeAddCommand(digests []hashing.Digest) ([]byte, error) {
	cmd := newCommand(addEventCommandType)
	if err := cmd.encode(digests); err != nil {
		return nil, err
	}
	return cmd.data, nil
}

func VerifDecodeAddCommand(data []byte) ([]hashing.Digest, uint8, error) {
	cmd := newCommandFromRaft(data)
	var out []hashing.Digest
	err := cmd.decode(&out)
	return out, uint8(cmd.id), err
}

func VerifStateRoundTrip(index, version uint64) (uint64, uint64, error) {
	s := &fsmState{index, version}
	b, err := s.encode()
	if err != nil {
		return 0, 0, err
	}
	var o fsmState
	if err := o.decode(b); err != nil {
		return 0, 0, err
	}
	return o.Index, o.BalloonVersion, nil
}

func VerifSnapshotRoundTrip(seq, version uint64) (uint64, uint64, error) {
	s := &fsmSnapshot{seq, version}
	b, err := s.encode()
	if err != nil {
		return 0, 0, err
	}
	var o fsmSnapshot
	if err := o.decode(b); err != nil {
		return 0, 0, err
	}
	return o.LastSeqNum, o.BalloonVersion, nil
}

func VerifMetadataRoundTrip(prev, next uint64) (uint64, uint64, error) {
	m := &VersionMetadata{prev, next}
	b, err := m.encode()
	if err != nil {
		return 0, 0, err
	}
	var o VersionMetadata
	if err := o.decode(b); err != nil {
		return 0, 0, err
	}
	return o.PreviousVersion, o.NewVersion, nil
}

// ---- raft log store (C15)

type VerifRaftLog interface {
	raft.LogStore
	raft.StableStore
	Close() error
}

func VerifOpenRaftLog(path string) (VerifRaftLog, error) { return newRaftLog(path) }
