//go:build verif

package consensus

import (
	"bytes"
	"context"
	"io"
	"sync"

	"github.com/bbva/qed/balloon"
	"github.com/bbva/qed/balloon/hyper"
	"github.com/bbva/qed/crypto/hashing"
	"github.com/bbva/qed/crypto/tlsutil"
	"github.com/bbva/qed/log"
	"github.com/bbva/qed/protocol"
	"github.com/bbva/qed/storage"
	"github.com/hashicorp/raft"
	"google.golang.org/grpc"
	"google.golang.org/grpc/metadata"
)

// ---- seams. bin/vcheck renames the production method `propose` to `proposeVerifOrig` and redirects the
// gRPC call inside `attemptToFetchSnapshot` in the scratch tree (purely syntactic, fails loudly if the definitions are not
// found); the methods below take their place and fall through to the originals unless a harness
// installed a hook on that node.

type VerifHooks struct {
	// Fetch replaces the gRPC call of a follower to the leader during Restore: it receives the request
	// the production code built and returns the stream the production chunk reader consumes.
	Fetch func(req *FetchSnapshotRequest) (ClusterService_FetchSnapshotClient, error)
	// Propose replaces raft.Apply.
	Propose func(data []byte) (interface{}, error)
}

var (
	verifHooksMu sync.Mutex
	verifHooks   = map[*RaftNode]*VerifHooks{}
)

func (n *RaftNode) VerifSetHooks(h *VerifHooks) {
	verifHooksMu.Lock()
	defer verifHooksMu.Unlock()
	if h == nil {
		delete(verifHooks, n)
	} else {
		verifHooks[n] = h
	}
}

func verifHooksOf(n *RaftNode) *VerifHooks {
	verifHooksMu.Lock()
	defer verifHooksMu.Unlock()
	return verifHooks[n]
}

// verifFetchRPC stands in front of the one gRPC call of attemptToFetchSnapshot (port/seams.py
// redirects the call expression, whatever the enclosing function's signature is).
func verifFetchRPC(n *RaftNode, c ClusterServiceClient, ctx context.Context, req *FetchSnapshotRequest, opts ...grpc.CallOption) (ClusterService_FetchSnapshotClient, error) {
	if h := verifHooksOf(n); h != nil && h.Fetch != nil {
		return h.Fetch(req)
	}
	return c.FetchSnapshot(ctx, req, opts...)
}

func (n *RaftNode) propose(cmd *command) (interface{}, error) {
	if h := verifHooksOf(n); h != nil && h.Propose != nil {
		return h.Propose(cmd.data)
	}
	return n.proposeVerifOrig(cmd)
}

// ---- bare FSM node: a RaftNode without a raft.Raft (the code treats raft == nil as "start-up")

// VerifNewBareNode builds a RaftNode the way NewRaftNodeWithLogger does up to (and excluding) the
// raft log, transport and raft.NewRaft: store, balloon (with a recycled batch cache), loadState, metrics.
func VerifNewBareNode(id string, store storage.ManagedStore, bc *hyper.BatchCache, snapshotsCh chan *protocol.Snapshot) (*RaftNode, error) {
	node := &RaftNode{
		info:            &NodeInfo{NodeId: id, RaftAddr: "bare:" + id, MgmtAddr: "bare-mgmt:" + id, HttpAddr: "bare-http:" + id},
		snapshotsCh:     snapshotsCh,
		log:             log.L(),
		tlsConfigurator: tlsutil.NewTLSConfigurator(&tlsutil.Config{}),
		done:            make(chan struct{}),
	}
	node.db = store
	node.hasherF = hashing.NewSha256Hasher
	var err error
	if bc != nil {
		node.balloon, err = balloon.VerifNewBalloonWithCache(store, node.hasherF, 300, bc)
	} else {
		node.balloon, err = balloon.NewBalloonWithLogger(store, node.hasherF, node.log.Named("balloon"))
	}
	if err != nil {
		return nil, err
	}
	if err := node.loadState(); err != nil {
		return nil, err
	}
	node.metrics = newRaftNodeMetrics(node)
	return node, nil
}

// VerifRaftSentinel makes n.raft non-nil (a zero raft.Raft that is never used: every use of n.raft
// on the paths a bare node runs is behind a seam) so that Restore takes its "not start-up" branch.
func (n *RaftNode) VerifRaftSentinel(on bool) {
	if on {
		n.raft = &raft.Raft{}
	} else {
		n.raft = nil
	}
}

func (n *RaftNode) VerifState() (index, version uint64) { return n.state.Index, n.state.BalloonVersion }
func (n *RaftNode) VerifBalloon() *balloon.Balloon      { return n.balloon }
func (n *RaftNode) VerifStore() storage.ManagedStore    { return n.db }

// VerifCloseBare closes the balloon only (the harness owns the store).
func (n *RaftNode) VerifCloseBare() {
	n.VerifSetHooks(nil)
	if n.balloon != nil {
		n.balloon.Close()
		n.balloon = nil
	}
}

// ---- serving a state transfer in-process: the leader's real FetchSnapshot with a fake server stream

type verifStream struct {
	chunks [][]byte
}

func (s *verifStream) Send(c *Chunk) error {
	s.chunks = append(s.chunks, append([]byte{}, c.Content...))
	return nil
}
func (s *verifStream) SetHeader(metadata.MD) error   { return nil }
func (s *verifStream) SendHeader(metadata.MD) error  { return nil }
func (s *verifStream) SetTrailer(metadata.MD)        {}
func (s *verifStream) Context() context.Context      { return context.Background() }
func (s *verifStream) SendMsg(m interface{}) error   { return nil }
func (s *verifStream) RecvMsg(m interface{}) error   { return io.EOF }

// VerifServeStream runs the real RaftNode.FetchSnapshot of this (leader) node for req and returns what
// the follower's gRPC client stream would deliver: the chunks sent, then the handler's error (or EOF).
func (n *RaftNode) VerifServeStream(req *FetchSnapshotRequest) (ClusterService_FetchSnapshotClient, error) {
	st := &verifStream{}
	err := n.FetchSnapshot(req, st)
	return &verifClientStream{chunks: st.chunks, err: err}, nil
}

type verifClientStream struct {
	chunks [][]byte
	i      int
	err    error
}

func (s *verifClientStream) Recv() (*Chunk, error) {
	if s.i < len(s.chunks) {
		c := &Chunk{Content: s.chunks[s.i]}
		s.i++
		return c, nil
	}
	if s.err != nil {
		return nil, s.err
	}
	return nil, io.EOF
}
func (s *verifClientStream) Header() (metadata.MD, error) { return nil, nil }
func (s *verifClientStream) Trailer() metadata.MD         { return nil }
func (s *verifClientStream) CloseSend() error             { return nil }
func (s *verifClientStream) Context() context.Context     { return context.Background() }
func (s *verifClientStream) SendMsg(m interface{}) error  { return nil }
func (s *verifClientStream) RecvMsg(m interface{}) error  { return io.EOF }

// VerifSnapshotBytes runs the real Snapshot()+Persist into a buffer.
func (n *RaftNode) VerifSnapshotBytes() ([]byte, error) {
	s, err := n.Snapshot()
	if err != nil {
		return nil, err
	}
	sink := &verifSink{}
	if err := s.Persist(sink); err != nil {
		return nil, err
	}
	s.Release()
	return sink.buf.Bytes(), nil
}

type verifSink struct{ buf bytes.Buffer }

func (s *verifSink) Write(p []byte) (int, error) { return s.buf.Write(p) }
func (s *verifSink) Close() error                { return nil }
func (s *verifSink) ID() string                  { return "verif" }
func (s *verifSink) Cancel() error               { return nil }

// VerifApplyResult unpacks the value RaftNode.Apply returns.
func VerifApplyResult(v interface{}) ([]*balloon.Snapshot, error) {
	r, ok := v.(*fsmResponse)
	if !ok || r == nil {
		return nil, nil
	}
	if r.err != nil {
		return nil, r.err
	}
	s, _ := r.val.([]*balloon.Snapshot)
	return s, nil
}

// ---- durable-write boundaries (crash-point enumeration, C07)

// VerifBoundaryHook is called at entry and exit of every durable write of the raft log store (the
// calls are inserted at check time by port/seams.py) and, through the harness's store wrapper, of the
// FSM store. A harness child process counts the boundaries and SIGKILLs itself at the chosen one.
var VerifBoundaryHook func(where string)

func verifBoundary(where string) {
	if h := VerifBoundaryHook; h != nil {
		h(where)
	}
}

// VerifForceRaftSnapshot asks raft for a snapshot now (raft calls Snapshot()+Persist and compacts its log).
func (n *RaftNode) VerifForceRaftSnapshot() error {
	return n.raft.Snapshot().Error()
}

func (n *RaftNode) VerifLeaveLeadership() error { return n.leaveLeadership() }
func (n *RaftNode) VerifRaftStats() map[string]string { return n.raft.Stats() }
