//go:build verif

package balloon

import (
	"github.com/bbva/qed/balloon/history"
	"github.com/bbva/qed/balloon/hyper"
	"github.com/bbva/qed/crypto/hashing"
	"github.com/bbva/qed/log"
	"github.com/bbva/qed/storage"
)

// VerifNewBalloon is NewBalloonWithLogger with the history LRU capacity as a parameter
// (production hard-codes 300). Everything else is the production constructor's code path.
func VerifNewBalloon(store storage.Store, hasherF func() hashing.Hasher, historyCache uint16) (*Balloon, error) {
	return VerifNewBalloonWithCache(store, hasherF, historyCache, hyper.NewBatchCache(hyper.DefaultBatchLevels))
}

// VerifNewBalloonWithCache additionally takes the (empty) hyper batch cache to use, so that
// harnesses can recycle the 1.15 GB array between cases.
func VerifNewBalloonWithCache(store storage.Store, hasherF func() hashing.Hasher, historyCache uint16, batchCache *hyper.BatchCache) (*Balloon, error) {
	logger := log.L()
	historyTree := history.NewHistoryTreeWithLogger(hasherF, store, historyCache, logger.Named("history"))
	hyperTree := hyper.NewHyperTreeWithLogger(hasherF, store, batchCache, logger.Named("hyper"))
	b := &Balloon{version: 0, hasherF: hasherF, store: store, historyTree: historyTree, hyperTree: hyperTree, log: logger}
	if err := b.RefreshVersion(); err != nil {
		return nil, err
	}
	return b, nil
}

// VerifHyperCacheDump returns the filled buckets of the in-memory hyper batch cache on the
// paths of keys, plus its entry count.
func (b *Balloon) VerifHyperCacheDump(keys [][]byte) map[string][]byte {
	return b.hyperTree.VerifCacheDump(keys)
}
