//go:build verif

package hyper

import "fmt"

// VerifCacheDump returns the filled buckets of the BatchCache behind the tree that lie on
// the paths of the given keys (every bucket that can legitimately be filled), plus the
// cache's own entry count under key "count" so that spurious buckets elsewhere show up.
func (t *HyperTree) VerifCacheDump(keys [][]byte) map[string][]byte {
	bc, ok := t.cache.(*BatchCache)
	if !ok {
		return nil
	}
	out := map[string][]byte{}
	for _, k := range keys {
		for d := uint16(0); d < uint16(len(bc.offsets)-1); d++ {
			h := treeHeight - d*batchHeight
			prefix := make([]byte, len(k))
			nbits := int(d * batchHeight)
			for i := 0; i < nbits; i++ {
				if k[i/8]&(1<<uint(7-i%8)) != 0 {
					prefix[i/8] |= 1 << uint(7-i%8)
				}
			}
			pos := newPosition(prefix, h)
			if v, ok := bc.Get(pos.Bytes()); ok {
				out[pos.StringId()] = v
			}
		}
	}
	out["count"] = []byte(fmt.Sprint(bc.Size()))
	return out
}

// VerifReset empties the buckets on the paths of keys and reports whether the cache is
// then completely empty (so that it can be re-used as a fresh cache: allocating and
// zeroing 1.15 GB per balloon dominates enumeration cost otherwise).
func (c *BatchCache) VerifReset(keys [][]byte) bool {
	c.Lock()
	defer c.Unlock()
	for _, k := range keys {
		for d := uint16(0); d < uint16(len(c.offsets)-1); d++ {
			h := treeHeight - d*batchHeight
			prefix := make([]byte, len(k))
			nbits := int(d * batchHeight)
			for i := 0; i < nbits; i++ {
				if k[i/8]&(1<<uint(7-i%8)) != 0 {
					prefix[i/8] |= 1 << uint(7-i%8)
				}
			}
			off := c.seek(newPosition(prefix, h).Bytes())
			if c.buf[off] == filled {
				for i := off; i < off+c.bucketSize; i++ {
					c.buf[i] = 0
				}
				c.entryCount--
			}
		}
	}
	return c.entryCount == 0
}
