//go:build verif

package cmd

import (
	"github.com/bbva/qed/gossip"
	"github.com/bbva/qed/log"
)

// The production task factories of the three agents, for the C19 harness.

func VerifAuditorFactory() gossip.TaskFactory   { return membershipFactory{log.L()} }
func VerifMonitorFactory() gossip.TaskFactory   { return incrementalFactory{log.L()} }
func VerifPublisherFactory() gossip.TaskFactory { return publisherFactory{log.L()} }
