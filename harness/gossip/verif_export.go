//go:build verif

package gossip

import (
	"github.com/bbva/qed/protocol"
	"github.com/hashicorp/memberlist"
)

// ---- seams (port/seams.py redirects the two call sites)

// VerifSendHook replaces memberlist's reliable transport: it sees every message an agent hands to
// the network. nil = the original call.
var VerifSendHook func(a *Agent, dst *memberlist.Node, wire []byte) error

func verifSendReliable(a *Agent, dst *memberlist.Node, wire []byte) error {
	if h := VerifSendHook; h != nil {
		return h(a, dst, wire)
	}
	return a.gossip.SendReliable(dst, wire)
}

// VerifShuffleHook owns the randomness of PeerList.Shuffle: it receives the names of the list (in
// their current order) and the swap function and applies a permutation of its choice. nil = math/rand.
var VerifShuffleHook func(names []string, swap func(i, j int))

func verifShuffle(l *PeerList, orig func(int, func(int, int)), n int, swap func(i, j int)) {
	if h := VerifShuffleHook; h != nil {
		names := make([]string, len(l.L))
		for i, p := range l.L {
			names[i] = p.Name
		}
		h(names, swap)
		return
	}
	orig(n, swap)
}

// ---- access for the harness

func (a *Agent) VerifTopology() *Topology { return a.topology }

// VerifRoute is Agent.route.
func (a *Agent) VerifRoute(src *Peer) []*memberlist.Node { return a.route(src) }

// the delegates memberlist would call
func (a *Agent) VerifNotifyMsg(wire []byte) { newAgentDelegate(a, a.log).NotifyMsg(wire) }
func (a *Agent) VerifNotifyJoin(n *memberlist.Node) {
	(&eventDelegate{a, a.log}).NotifyJoin(n)
}
func (a *Agent) VerifNotifyLeave(n *memberlist.Node) {
	(&eventDelegate{a, a.log}).NotifyLeave(n)
}
func (a *Agent) VerifNotifyUpdate(n *memberlist.Node) {
	(&eventDelegate{a, a.log}).NotifyUpdate(n)
}

// VerifNode builds the memberlist node of a peer including its encoded meta data.
func VerifNode(p *Peer) *memberlist.Node {
	n := p.Node()
	meta, err := p.Meta.Encode()
	if err != nil {
		panic(err)
	}
	n.Meta = meta
	return n
}

// VerifWasProcessed is BatchProcessor.wasProcessed.
func (d *BatchProcessor) VerifWasProcessed(b *protocol.BatchSnapshots) bool { return d.wasProcessed(b) }

func (t *Topology) VerifRoles() []string {
	t.Lock()
	defer t.Unlock()
	var out []string
	for k := range t.m {
		out = append(out, k)
	}
	return out
}
