//go:build verif

// Package hx: helpers shared by the balloon-level harnesses (digest alphabet, a
// balloon driver that persists mutations like consensus.applyAdd does, the JSON
// round trip of the public protocol).
package hx

import (
	"crypto/sha256"
	"encoding/json"
	"fmt"
	"os"
	"sort"
	"sync"

	"github.com/bbva/qed/balloon"
	"github.com/bbva/qed/balloon/hyper"
	"github.com/bbva/qed/crypto/hashing"
	"github.com/bbva/qed/protocol"
	"github.com/bbva/qed/storage"
	"github.com/bbva/qed/storage/bplus"
	"github.com/bbva/qed/storage/rocks"
)

// ---------------------------------------------------------------- digest alphabet

func flip(b []byte, bit int) []byte {
	o := append([]byte{}, b...)
	o[bit/8] ^= 1 << uint(7-bit%8)
	return o
}

func base() []byte {
	b := make([]byte, 32)
	for i := range b {
		if i%2 == 0 {
			b[i] = 0xA5
		} else {
			b[i] = 0x3C
		}
	}
	return b
}

type NamedDigest struct {
	Name string
	D    []byte
}

// Alphabet returns the crafted digests, simplest first. X is the base pattern; Y<b> shares
// exactly b leading bits with X.
func Alphabet() []NamedDigest {
	zero := make([]byte, 32)
	one := make([]byte, 32)
	one[31] = 1
	top := make([]byte, 32)
	top[0] = 0x80
	a := []NamedDigest{{"Z", zero}, {"Z255", one}, {"T", top}, {"X", base()}}
	for _, b := range []int{23, 24, 27, 28, 31, 32, 128, 254, 255} {
		a = append(a, NamedDigest{fmt.Sprintf("Y%d", b), flip(base(), b)})
	}
	sa := sha256.Sum256([]byte("a"))
	sb := sha256.Sum256([]byte("b"))
	a = append(a, NamedDigest{"Sa", sa[:]}, NamedDigest{"Sb", sb[:]})
	return a
}

func ByName(names ...string) []NamedDigest {
	m := map[string]NamedDigest{}
	for _, d := range Alphabet() {
		m[d.Name] = d
	}
	out := []NamedDigest{}
	for _, n := range names {
		d, ok := m[n]
		if !ok {
			panic("hx: unknown digest " + n)
		}
		out = append(out, d)
	}
	return out
}

// SeqDigest gives the i-th digest of a long log where only n matters.
func SeqDigest(i int) []byte {
	s := sha256.Sum256([]byte(fmt.Sprintf("event-%d", i)))
	return s[:]
}

// ---------------------------------------------------------------- enumeration helpers

// Permutations of every non-empty subset of [0,n) of size in [minLen, maxLen], in
// length-then-lexicographic order.
func Arrangements(n, minLen, maxLen int) [][]int {
	var out [][]int
	var rec func(cur []int, used []bool, l int)
	rec = func(cur []int, used []bool, l int) {
		if len(cur) == l {
			out = append(out, append([]int{}, cur...))
			return
		}
		for i := 0; i < n; i++ {
			if !used[i] {
				used[i] = true
				rec(append(cur, i), used, l)
				used[i] = false
			}
		}
	}
	for l := minLen; l <= maxLen; l++ {
		rec(nil, make([]bool, n), l)
	}
	return out
}

// Compositions of n into ordered positive parts, all-singles first.
func Compositions(n int) [][]int {
	var out [][]int
	for mask := 0; mask < 1<<uint(n-1); mask++ {
		var parts []int
		run := 1
		for i := 0; i < n-1; i++ {
			if mask&(1<<uint(i)) != 0 { // glue i and i+1
				run++
			} else {
				parts = append(parts, run)
				run = 1
			}
		}
		parts = append(parts, run)
		out = append(out, parts)
	}
	return out
}

// ---------------------------------------------------------------- balloon driver

type Backend string

const (
	BPlus Backend = "bplus"
	Rocks Backend = "rocks"
)

type Driver struct {
	B       *balloon.Balloon
	Store   storage.Store
	Backend Backend
	Dir     string
	Cache   uint16
	Snaps   []*balloon.Snapshot // index = version
	bc      *hyper.BatchCache
	keys    [][]byte
}

func NewDriver(be Backend, dir string, historyCache uint16) (*Driver, error) {
	d := &Driver{Backend: be, Dir: dir, Cache: historyCache}
	if err := d.open(); err != nil {
		return nil, err
	}
	return d, nil
}

func (d *Driver) open() error {
	switch d.Backend {
	case BPlus:
		if d.Store == nil {
			d.Store = bplus.NewBPlusTreeStore()
		}
	case Rocks:
		s, err := rocks.NewRocksDBStore(d.Dir, 0)
		if err != nil {
			return err
		}
		d.Store = s
	}
	d.bc = getCache()
	b, err := balloon.VerifNewBalloonWithCache(d.Store, hashing.NewSha256Hasher, d.Cache, d.bc)
	if err != nil {
		return err
	}
	d.B = b
	return nil
}

// ---- recycling of hyper batch caches (a recycled cache is provably empty: VerifReset
// reports whether every filled bucket was on the path of a key the driver inserted)
var (
	poolMu sync.Mutex
	pool   []*hyper.BatchCache
)

func getCache() *hyper.BatchCache {
	poolMu.Lock()
	defer poolMu.Unlock()
	if n := len(pool); n > 0 {
		c := pool[n-1]
		pool = pool[:n-1]
		return c
	}
	return hyper.NewBatchCache(hyper.DefaultBatchLevels)
}

func (d *Driver) recycle() {
	if d.bc == nil {
		return
	}
	if d.bc.VerifReset(d.keys) {
		poolMu.Lock()
		pool = append(pool, d.bc)
		poolMu.Unlock()
	}
	d.bc = nil
}

// Reopen closes the balloon (and the RocksDB store) and opens it again on the same data.
func (d *Driver) Reopen() error {
	d.B.Close()
	d.recycle()
	if d.Backend == Rocks {
		if err := d.Store.Close(); err != nil {
			return err
		}
		d.Store = nil
	}
	return d.open()
}

func (d *Driver) Close() {
	if d.B != nil {
		d.B.Close()
	}
	d.recycle()
	if d.Store != nil {
		d.Store.Close()
	}
	if d.Backend == Rocks && d.Dir != "" {
		os.RemoveAll(d.Dir)
	}
}

// Apply inserts one group of digests: a group of one goes through Add, a larger one through
// AddBulk (single==false forces AddBulk even for one digest), then persists the mutations.
func (d *Driver) Apply(group [][]byte, forceBulk bool) ([]*balloon.Snapshot, error) {
	var snaps []*balloon.Snapshot
	var muts []*storage.Mutation
	var err error
	d.keys = append(d.keys, group...)
	if len(group) == 1 && !forceBulk {
		var s *balloon.Snapshot
		s, muts, err = d.B.Add(group[0])
		snaps = []*balloon.Snapshot{s}
	} else {
		ds := make([]hashing.Digest, len(group))
		for i := range group {
			ds[i] = group[i]
		}
		snaps, muts, err = d.B.AddBulk(ds)
	}
	if err != nil {
		return nil, err
	}
	if err := d.Store.Mutate(muts, nil); err != nil {
		return nil, err
	}
	d.Snaps = append(d.Snaps, snaps...)
	return snaps, nil
}

// ---------------------------------------------------------------- wire round trips

// WireMembership: proof -> protocol result -> JSON -> protocol result -> proof.
func WireMembership(p *balloon.MembershipProof) (*balloon.MembershipProof, []byte, error) {
	mr := protocol.ToMembershipResult(nil, p)
	b, err := json.Marshal(mr)
	if err != nil {
		return nil, nil, err
	}
	var back protocol.MembershipResult
	if err := json.Unmarshal(b, &back); err != nil {
		return nil, b, err
	}
	return protocol.ToBalloonProof(&back, hashing.NewSha256Hasher), b, nil
}

func WireIncremental(p *balloon.IncrementalProof) (*balloon.IncrementalProof, []byte, error) {
	ir := protocol.ToIncrementalResponse(p)
	b, err := json.Marshal(ir)
	if err != nil {
		return nil, nil, err
	}
	var back protocol.IncrementalResponse
	if err := json.Unmarshal(b, &back); err != nil {
		return nil, b, err
	}
	return protocol.ToIncrementalProof(&back, hashing.NewSha256Hasher), b, nil
}

// ---------------------------------------------------------------- table dumps

func DumpTable(s storage.Store, t storage.Table) [][2][]byte {
	var out [][2][]byte
	r := s.GetAll(t)
	defer r.Close()
	for {
		buf := make([]*storage.KVPair, 64)
		n, err := r.Read(buf)
		if err != nil || n == 0 {
			break
		}
		for i := 0; i < n; i++ {
			out = append(out, [2][]byte{append([]byte{}, buf[i].Key...), append([]byte{}, buf[i].Value...)})
		}
	}
	return out
}

func HashDump(rows [][2][]byte) string {
	h := sha256.New()
	for _, r := range rows {
		fmt.Fprintf(h, "%d:%x=%d:%x;", len(r[0]), r[0], len(r[1]), r[1])
	}
	return fmt.Sprintf("%x", h.Sum(nil)[:12])
}

func HashMap(m map[string][]byte) string {
	ks := make([]string, 0, len(m))
	for k := range m {
		ks = append(ks, k)
	}
	sort.Strings(ks)
	h := sha256.New()
	for _, k := range ks {
		fmt.Fprintf(h, "%s=%x;", k, m[k])
	}
	return fmt.Sprintf("%x", h.Sum(nil)[:12])
}
