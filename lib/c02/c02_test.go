//go:build verif

// Package c02: soundness of the client membership verifier against a bounded Dolev-Yao
// server: every answer it can assemble from genuine answers of every prefix of the log
// (field edits, audit-path subsets/truncations/extensions, same-position replacements,
// recombination of hyper and history parts) is decoded through the wire format and handed
// to the real DigestVerify against every authentic (history digest, hyper digest) pair.
package c02

import (
	"bytes"
	"encoding/json"
	"fmt"
	"os"
	"runtime"
	"sort"
	"strconv"
	"strings"
	"sync/atomic"
	"testing"

	"github.com/bbva/qed/balloon"
	"github.com/bbva/qed/crypto/hashing"
	"github.com/bbva/qed/protocol"
	"github.com/bbva/qed/verifx/ev"
	"github.com/bbva/qed/verifx/hx"
	"github.com/bbva/qed/verifx/ref"
)

type genuine struct {
	M  int    // log prefix length at which the answer was produced
	D  string // name of the queried digest
	Q  uint64
	MR *protocol.MembershipResult
}

type world struct {
	names  []string // the log
	digs   [][]byte
	qnames []string // queried digests
	qdigs  map[string][]byte
	snaps  []*balloon.Snapshot
	ans    []genuine
	vals   []uint64 // version domain
	// known values per position
	hyperK map[string][][]byte
	histK  map[string][][]byte
	// memo of the real hyper verifier's verdicts per (path, key, value)
	hyperMemo map[hyperKey][]bool
}

type candDesc struct {
	Log    []string `json:"log"`
	Base   string   `json:"base"` // genuine answer the candidate was derived from
	Edit   string   `json:"edit"`
	Key    string   `json:"keyDigest"`
	Exists bool     `json:"exists"`
	Actual uint64   `json:"actual"`
	Query  uint64   `json:"query"`
	Current uint64  `json:"current"`
	A      int      `json:"historySnapshot"`
	B      int      `json:"hyperSnapshot"`
}

func copyMR(m *protocol.MembershipResult) *protocol.MembershipResult {
	c := *m
	c.Hyper = map[string]hashing.Digest{}
	for k, v := range m.Hyper {
		c.Hyper[k] = v
	}
	c.History = map[string]hashing.Digest{}
	for k, v := range m.History {
		c.History[k] = v
	}
	return &c
}

func hyperHeight(k string) int {
	i := strings.LastIndex(k, "|")
	h, _ := strconv.Atoi(k[i+1:])
	return h
}

func sortedHyperKeys(m map[string]hashing.Digest) []string {
	ks := make([]string, 0, len(m))
	for k := range m {
		ks = append(ks, k)
	}
	sort.Slice(ks, func(a, b int) bool { return hyperHeight(ks[a]) < hyperHeight(ks[b]) })
	return ks
}

func sortedKeys(m map[string]hashing.Digest) []string {
	ks := make([]string, 0, len(m))
	for k := range m {
		ks = append(ks, k)
	}
	sort.Strings(ks)
	return ks
}

func buildWorld(names []string, qnames []string) (*world, error) {
	w := &world{names: names, qnames: qnames, qdigs: map[string][]byte{}, hyperK: map[string][][]byte{}, histK: map[string][][]byte{}, hyperMemo: map[hyperKey][]bool{}}
	for _, nd := range hx.ByName(names...) {
		w.digs = append(w.digs, nd.D)
	}
	for _, nd := range hx.ByName(qnames...) {
		w.qdigs[nd.Name] = nd.D
	}
	d, err := hx.NewDriver(hx.BPlus, "", 300)
	if err != nil {
		return nil, err
	}
	defer d.Close()
	for m := 1; m <= len(names); m++ {
		if _, err := d.Apply([][]byte{w.digs[m-1]}, false); err != nil {
			return nil, err
		}
		for _, qn := range qnames {
			for q := uint64(0); q < uint64(m); q++ {
				p, err := d.B.QueryDigestMembershipConsistency(w.qdigs[qn], q)
				if err != nil {
					continue
				}
				mr := protocol.ToMembershipResult(nil, p)
				b, _ := json.Marshal(mr)
				var back protocol.MembershipResult
				if err := json.Unmarshal(b, &back); err != nil {
					return nil, err
				}
				if back.Hyper == nil {
					back.Hyper = map[string]hashing.Digest{}
				}
				if back.History == nil {
					back.History = map[string]hashing.Digest{}
				}
				w.ans = append(w.ans, genuine{m, qn, q, &back})
				for k, v := range back.Hyper {
					w.hyperK[k] = addVal(w.hyperK[k], v)
				}
			}
		}
	}
	w.snaps = d.Snaps
	n := uint64(len(names))
	for v := uint64(0); v <= n+1; v++ {
		w.vals = append(w.vals, v)
	}
	w.vals = append(w.vals, ^uint64(0))
	// every value a history position ever had, frozen or not (reference tree, bound to the code by C04)
	for v := uint64(0); v < n; v++ {
		for h := uint16(0); h <= ref.RootHeight(v); h++ {
			for i := uint64(0); i <= v; i += uint64(1) << h {
				k := fmt.Sprintf("%d|%d", i, h)
				w.histK[k] = addVal(w.histK[k], ref.HistoryNode(w.digs, i, h, v))
			}
		}
	}
	return w, nil
}

func addVal(l [][]byte, v []byte) [][]byte {
	for _, x := range l {
		if bytes.Equal(x, v) {
			return l
		}
	}
	return append(l, append([]byte{}, v...))
}

func (w *world) isMemberAt(d []byte, v uint64) bool {
	return v < uint64(len(w.digs)) && bytes.Equal(w.digs[v], d)
}

func (w *world) isMember(d []byte) bool {
	for _, x := range w.digs {
		if bytes.Equal(x, d) {
			return true
		}
	}
	return false
}

var evals int64

// fingerprint of a hyper audit path (order independent)
func fpPath(m map[string]hashing.Digest) [2]uint64 {
	var a, b uint64
	for k, v := range m {
		h1, h2 := uint64(14695981039346656037), uint64(1099511628211)
		for i := 0; i < len(k); i++ {
			h1 = (h1 ^ uint64(k[i])) * 1099511628211
			h2 = h2*31 + uint64(k[i])
		}
		for i := 0; i < len(v); i++ {
			h1 = (h1 ^ uint64(v[i])) * 1099511628211
			h2 = h2*131 + uint64(v[i])
		}
		a += h1
		b += h2
	}
	return [2]uint64{a + uint64(len(m)), b}
}

type hyperKey struct {
	fp  [2]uint64
	key string
	av  uint64
}

// check hands one candidate to the real decoder + verifier.
// Reduction (stated in the evidence): the real component verifiers are run against EVERY authentic
// digest (hyper part memoised: it is a pure function of path, key and value); the real DigestVerify is
// then run on every pair (a,b) for which either component accepted, plus - for the scalar class, which
// contains every genuine answer - the pair (0,0).
func (w *world) check(r *ev.Run, mr *protocol.MembershipResult, base genuine, edit string) {
	defaultPair := edit == "scalars"
	var p *balloon.MembershipProof
	if pn, _ := ev.Catch(func() { p = protocol.ToBalloonProof(mr, hashing.NewSha256Hasher) }); pn {
		return // decoder failure on a hostile answer: C12's subject
	}
	n := len(w.digs)
	hk := hyperKey{fpPath(mr.Hyper), string(mr.KeyDigest), mr.ActualVersion}
	hyperOK, ok := w.hyperMemo[hk]
	if !ok {
		hyperOK = make([]bool, n)
		for b := 0; b < n; b++ {
			ev.Catch(func() { hyperOK[b] = p.HyperProof.Verify(mr.KeyDigest, w.snaps[b].HyperDigest) })
			atomic.AddInt64(&evals, 1)
		}
		w.hyperMemo[hk] = hyperOK
	}
	histOK := make([]bool, n)
	for a := 0; a < n; a++ {
		ev.Catch(func() { histOK[a] = p.HistoryProof.Verify(mr.KeyDigest, w.snaps[a].HistoryDigest) })
		atomic.AddInt64(&evals, 1)
	}
	for a := 0; a < n; a++ {
		for b := 0; b < n; b++ {
			if !(histOK[a] || hyperOK[b] || (defaultPair && a == 0 && b == 0)) {
				continue
			}
			snap := &balloon.Snapshot{HistoryDigest: w.snaps[a].HistoryDigest, HyperDigest: w.snaps[b].HyperDigest, Version: uint64(a)}
			var acc bool
			pn, _ := ev.Catch(func() { acc = p.DigestVerify(mr.KeyDigest, snap) })
			atomic.AddInt64(&evals, 1)
			if pn || !acc {
				continue
			}
			r.Outcome(fmt.Sprintf("accepted exists=%v member=%v", mr.Exists, w.isMemberAt(mr.KeyDigest, mr.ActualVersion)))
			keyName := fmt.Sprintf("%x", []byte(mr.KeyDigest))
			for n, d := range w.qdigs {
				if bytes.Equal(d, mr.KeyDigest) {
					keyName = n
				}
			}
			desc := candDesc{Log: w.names, Base: fmt.Sprintf("answer(prefix=%d,digest=%s,q=%d)", base.M, base.D, base.Q), Edit: edit, Key: keyName,
				Exists: mr.Exists, Actual: mr.ActualVersion, Query: mr.QueryVersion, Current: mr.CurrentVersion, A: a, B: b}
			switch {
			case !mr.Exists && w.isMember(mr.KeyDigest):
				r.Violation("verifier accepts a claim of ABSENCE for an event that is present (Exists=false skips every check but the hyper path)", desc)
			case !mr.Exists:
				r.Violation("verifier accepts an absence claim it cannot check (Exists=false, digest indeed absent: accepted only because the hyper leaf does not bind the key)", desc)
			case !w.isMemberAt(mr.KeyDigest, mr.ActualVersion) && mr.ActualVersion > mr.QueryVersion:
				r.Violation("verifier accepts an EXISTENCE claim for a digest not inserted at the claimed version (history proof skipped because ActualVersion > QueryVersion)", desc)
			case !w.isMemberAt(mr.KeyDigest, mr.ActualVersion):
				r.Violation("verifier accepts an EXISTENCE claim for a digest not inserted at the claimed version", desc)
			case mr.ActualVersion > mr.QueryVersion:
				r.Violation("verifier accepts an existence claim whose actual version is later than its query version (history proof skipped)", desc)
			case mr.ActualVersion > uint64(a):
				r.Violation("verifier accepts an existence claim whose actual version is later than the authentic history snapshot it was checked against", desc)
			}
		}
	}
}

func (w *world) explore(r *ev.Run, thorough bool) {
	// (i) scalar fields over their whole domain, for every genuine answer (maps are shared: the decoder
	// copies the history path and only reads the hyper path)
	for _, g := range w.ans {
		for _, ex := range []bool{true, false} {
			for _, av := range w.vals {
				for _, qv := range w.vals {
					cvs := []uint64{g.MR.CurrentVersion}
					if ex { // CurrentVersion is attacker-controlled too; it is not an input of today's verifier, so it is varied on existence claims only
						cvs = w.vals
					}
					for _, cv := range cvs {
						for _, kn := range w.qnames {
							c := *g.MR
							c.Exists, c.ActualVersion, c.QueryVersion, c.CurrentVersion, c.KeyDigest = ex, av, qv, cv, w.qdigs[kn]
							w.check(r, &c, g, "scalars")
						}
					}
				}
			}
		}
		r.Distinct(fmt.Sprintf("scalars %v %d %s %d", w.names, g.M, g.D, g.Q))
	}
	// (v) glued entries: hashes are H(left||right||pos) without length framing, so an entry holding
	// value(i,h)||value(i+2^h,h) turns a partial parent into the full one; combined with every version triple
	for _, g := range w.ans {
		if !g.MR.Exists {
			continue
		}
		n := uint64(len(w.digs))
		for i := uint64(0); i < n; i++ {
			for h := uint16(0); h <= ref.RootHeight(n); h++ {
				if i%(uint64(1)<<h) != 0 || (i>>h)%2 != 0 {
					continue
				}
				k1, k2 := fmt.Sprintf("%d|%d", i, h), fmt.Sprintf("%d|%d", i+(uint64(1)<<h), h)
				for _, v1 := range w.histK[k1] {
					for _, v2 := range w.histK[k2] {
						glued := append(append([]byte{}, v1...), v2...)
						// version triples: any CurrentVersion x (genuine (actual, query) and every single edit of either)
						type aq struct{ a, q uint64 }
						pairs := []aq{{g.MR.ActualVersion, g.MR.QueryVersion}}
						for _, v := range w.vals {
							pairs = append(pairs, aq{v, g.MR.QueryVersion}, aq{g.MR.ActualVersion, v}, aq{v, v})
						}
						for _, x := range pairs {
							for _, cv := range w.vals {
								for _, kn := range w.qnames {
									c := copyMR(g.MR)
									c.History[k1] = glued
									c.ActualVersion, c.QueryVersion, c.CurrentVersion, c.KeyDigest = x.a, x.q, cv, w.qdigs[kn]
									w.check(r, c, g, "history entry "+k1+" = value("+k1+")||value("+k2+") (glued)")
								}
							}
						}
					}
				}
			}
		}
		r.Distinct(fmt.Sprintf("glue %v %d %s %d", w.names, g.M, g.D, g.Q))
	}
	// (ii) audit-path subsets / truncations / extensions
	for _, g := range w.ans {
		hk := sortedKeys(g.MR.History)
		yk := sortedHyperKeys(g.MR.Hyper)
		var hyperVariants []map[string]hashing.Digest
		hyperVariants = append(hyperVariants, g.MR.Hyper)
		for k := 1; k <= 3 && k < len(yk); k++ { // drop the k lowest siblings: pretend the leaf sits k levels higher
			m := map[string]hashing.Digest{}
			for _, key := range yk[k:] {
				m[key] = g.MR.Hyper[key]
			}
			hyperVariants = append(hyperVariants, m)
		}
		if len(yk) > 0 { // add k fake lower siblings: pretend the leaf sits k levels lower
			low := hyperHeight(yk[0])
			m := map[string]hashing.Digest{}
			for k, v := range g.MR.Hyper {
				m[k] = v
			}
			for k := 1; k <= 2 && low-k >= 0; k++ {
				h := low - k
				for _, side := range []int{0, 1} {
					prefix := make([]byte, 32)
					depth := 256 - h - 1
					copy(prefix, g.MR.KeyDigest)
					maskTo(prefix, depth)
					if side == 1 {
						prefix[depth/8] |= 1 << uint(7-depth%8)
					}
					m2 := map[string]hashing.Digest{}
					for kk, vv := range m {
						m2[kk] = vv
					}
					m2[fmt.Sprintf("%#x|%d", prefix, h)] = ref.HyperDefault(h)
					m = m2
				}
				hyperVariants = append(hyperVariants, m)
			}
		}
		for hvI, hv := range hyperVariants {
			for mask := 0; mask < 1<<uint(len(hk)); mask++ {
				if hvI == 0 && mask == 0 {
					continue
				}
				hist := map[string]hashing.Digest{}
				for i, key := range hk {
					if mask&(1<<uint(i)) == 0 {
						hist[key] = g.MR.History[key]
					}
				}
				for _, ex := range []bool{true, false} {
					for _, av := range w.vals {
						c := copyMR(g.MR)
						c.Hyper, c.History, c.Exists, c.ActualVersion = hv, hist, ex, av
						w.check(r, c, g, fmt.Sprintf("hyper-variant %d, history entries removed mask %b", hvI, mask))
					}
				}
			}
		}
		r.Distinct(fmt.Sprintf("paths %v %d %s %d", w.names, g.M, g.D, g.Q))
	}
	// (iii) every entry replaced by every other value known for the same position (+ defaults)
	for _, g := range w.ans {
		for _, key := range sortedKeys(g.MR.Hyper) {
			alts := append([][]byte{}, w.hyperK[key]...)
			alts = addVal(alts, ref.HyperDefault(hyperHeight(key)))
			for _, v := range alts {
				if bytes.Equal(v, g.MR.Hyper[key]) {
					continue
				}
				for _, ex := range []bool{true, false} {
					c := copyMR(g.MR)
					c.Hyper[key] = v
					c.Exists = ex
					w.check(r, c, g, "hyper entry "+key+" replaced by another known value of that position")
				}
			}
		}
		for _, key := range sortedKeys(g.MR.History) {
			for _, v := range w.histK[key] {
				if bytes.Equal(v, g.MR.History[key]) {
					continue
				}
				for _, qv := range w.vals {
					c := copyMR(g.MR)
					c.History[key] = v
					c.QueryVersion = qv
					w.check(r, c, g, "history entry "+key+" replaced by another known value of that position")
				}
			}
		}
		r.Distinct(fmt.Sprintf("replace %v %d %s %d", w.names, g.M, g.D, g.Q))
	}
	// (iv) hyper part of X with history part and scalars of Y, for all pairs
	for _, x := range w.ans {
		for _, y := range w.ans {
			if x.MR == y.MR {
				continue
			}
			for _, ex := range []bool{true, false} {
				for _, key := range [][]byte{y.MR.KeyDigest, x.MR.KeyDigest} {
					c := copyMR(y.MR)
					c.Hyper = x.MR.Hyper
					c.Exists = ex
					c.KeyDigest = key
					w.check(r, c, y, fmt.Sprintf("hyper part taken from answer(prefix=%d,digest=%s,q=%d)", x.M, x.D, x.Q))
					if thorough {
						c2 := copyMR(c)
						c2.ActualVersion = x.MR.ActualVersion
						w.check(r, c2, y, fmt.Sprintf("hyper part and actual version taken from answer(prefix=%d,digest=%s,q=%d)", x.M, x.D, x.Q))
					}
				}
			}
		}
	}
	r.Distinct(fmt.Sprintf("recombine %v", w.names))
}

func maskTo(b []byte, nbits int) {
	for i := nbits; i < len(b)*8; i++ {
		b[i/8] &^= 1 << uint(7-i%8)
	}
}

func TestC02(t *testing.T) {
	r := ev.Begin("C02")
	r.Rule("world = a log (every ordered sequence over a crafted sub-alphabet up to the bound) + queried digests (added ones, never-added ones sharing 24/128/254/255 bits with an added one); knowledge = every genuine answer for every (prefix of the log, digest, query version) and every value any tree position ever had; candidates = (i) all scalar fields over their domain, (ii) history-entry subsets x hyper truncations/extensions, (iii) same-position replacements, (iv) hyper part of X with history+scalars of Y for all pairs; each candidate is JSON-decoded by the real protocol.ToBalloonProof and verified by the real DigestVerify against every authentic (history_a, hyper_b); evaluations counts verifier calls; distinct = (world, genuine answer, edit class)")
	r.Assume("SHA-256 collision resistance: the adversary recombines known values, it does not invert the hash", "a panic of the verifier on a hostile answer is a rejection here (totality is C12)",
		"'queried version' of the statement = the claimed QueryVersion and the version of the authentic history snapshot used; both must be >= ActualVersion")
	type spec struct {
		sub    []string
		maxLen int
		q      []string
	}
	var specs []spec
	if r.Thorough() {
		specs = []spec{
			{[]string{"X", "Y255", "Y24", "Z"}, 4, []string{"X", "Y255", "Y24", "Z", "Y254", "Y128", "T"}},
			{[]string{"X", "Y23", "Y128", "Sa"}, 3, []string{"X", "Y23", "Y128", "Sa", "Y24", "Y255"}},
		}
	} else {
		specs = []spec{
			{[]string{"X", "Y255", "Y24", "Z"}, 3, []string{"X", "Y255", "Y24", "Z", "Y254", "Y128"}},
		}
	}
	type job struct {
		names, q []string
	}
	var jobs []job
	if r.Replay != "" {
		var doc struct {
			Detail candDesc `json:"detail"`
		}
		b, err := os.ReadFile(r.Replay)
		if err != nil {
			t.Fatal(err)
		}
		json.Unmarshal(b, &doc)
		jobs = []job{{doc.Detail.Log, specs[0].q}}
	} else {
		for _, s := range specs {
			for _, arr := range hx.Arrangements(len(s.sub), 1, s.maxLen) {
				names := make([]string, len(arr))
				for i, a := range arr {
					names[i] = s.sub[a]
				}
				jobs = append(jobs, job{names, s.q})
			}
		}
		if !r.Thorough() { // a few logs of four events: the smallest size at which version n-1 and n-2 share a root height
			for _, names := range [][]string{{"Z", "Y24", "Y255", "X"}, {"X", "Z", "Y24", "Y255"}, {"Y24", "X", "Y255", "Z"}, {"Z", "Y255", "X", "Y24"}, {"Z", "T", "Sa", "X"}} {
				jobs = append(jobs, job{names, []string{"X", "Y255", "Y24", "Z", "Y254", "Y128", "T", "Sa"}})
			}
		}
	}
	r.Bound("logs", len(jobs))
	ev.ParallelFor(len(jobs), runtime.NumCPU(), func(i int) {
		if !r.Mine(i) {
			return
		}
		w, err := buildWorld(jobs[i].names, jobs[i].q)
		if err != nil {
			r.Violation("building the honest world fails: "+err.Error(), jobs[i].names)
			return
		}
		w.explore(r, r.Thorough())
		if i%13 == 0 {
			r.Sample(map[string]interface{}{"log": jobs[i].names, "queried": jobs[i].q, "genuine_answers": len(w.ans)})
		}
	})
	r.Eval(int(atomic.LoadInt64(&evals)))
	r.Finish()
}
