//go:build verif

package fx

import (
	"fmt"
	"sort"
	"sync"

	"github.com/bbva/qed/verifx/ev"
)

// BFS explores every event sequence within the bounds, breadth first, de-duplicating on Canon().
func BFS(r *ev.Run, replicas, maxRep int, b Bounds, depth int, tags map[string]bool, workers int) {
	// every live replica owns a 1.15 GB hyper cache (plus one for the fault-free replica): the number of
	// workers is bounded so that a search stays below ~16 GB of live caches (the Go soft memory limit set by bin/vcheck keeps garbage from doubling that) whatever the machine offers
	if lim := 14 / (maxRep + 1); workers > lim {
		workers = lim
	}
	if workers < 2 {
		workers = 2
	}
	x := &explorer{r: r, replicas: replicas, maxRep: maxRep, b: b, depth: depth, tags: tags, workers: workers}
	x.run()
}

type explorer struct {
	r        *ev.Run
	replicas int
	maxRep   int
	b        Bounds
	depth    int
	tags     map[string]bool
	workers  int
}

func (x *explorer) run() {
	type node struct {
		path []Event
		nEn  int
	}
	type task struct {
		n      node
		lo, hi int
	}
	const chunk = 4
	level := []node{{nil, 16}}
	var mu sync.Mutex
	seen := map[string]bool{}
	x.r.States(1)
	for d := 1; d <= x.depth && len(level) > 0; d++ {
		var next []node
		var tasks []task
		for _, n := range level {
			for lo := 0; lo < n.nEn; lo += chunk {
				hi := lo + chunk
				if hi > n.nEn {
					hi = n.nEn
				}
				tasks = append(tasks, task{n, lo, hi})
			}
		}
		ev.ParallelFor(len(tasks), x.workers, func(i int) {
			if !x.r.Mine(i) {
				return
			}
			if x.r.OutOfTime() {
				x.r.Capped(fmt.Sprintf("internal deadline reached at depth %d", d))
				return
			}
			tk := tasks[i]
			c, ok := Replay(x.r, x.replicas, x.maxRep, tk.n.path)
			defer c.Destroy()
			if !ok {
				return
			}
			c.Tags = x.tags
			evs := c.Enabled(x.b)
			for k := tk.lo; k < tk.hi && k < len(evs); k++ {
				e := evs[k]
				saved := c.Save()
				ok := c.Step(e)
				x.r.Transitions(1)
				if ok {
					c.CheckDirty(true)
					key := c.Canon()
					mu.Lock()
					isNew := !seen[key]
					if isNew {
						seen[key] = true
					}
					mu.Unlock()
					if isNew {
						x.r.States(1)
						x.r.Distinct(key)
						nEn := len(c.Enabled(x.b))
						mu.Lock()
						next = append(next, node{append(append([]Event{}, tk.n.path...), e), nEn})
						if len(seen)%100 == 1 {
							x.r.Sample(PathString(c.Path))
						}
						mu.Unlock()
					}
				}
				if k+1 < tk.hi && k+1 < len(evs) {
					c.Undo(saved)
				}
			}
		})
		fmt.Printf("[bfs] depth %d: %d nodes expanded (%d tasks), %d new states\n", d, len(level), len(tasks), len(next))
		// deterministic order of the next level (shortest-first counterexamples, reproducible sharding)
		sort.Slice(next, func(a, b int) bool { return PathString(next[a].path) < PathString(next[b].path) })
		level = next
		if !x.r.OutOfTime() {
			x.r.Bound("depth_completed", d)
		}
	}
}

