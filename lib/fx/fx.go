//go:build verif

// Package fx: a cluster of *bare* RaftNodes (real consensus.RaftNode values without a raft.Raft,
// each over a real RocksDB store and a real balloon) driven by the environment model of
// hashicorp/raft's FSM contract (DESIGN §3.B): committed entries are delivered in index order; after
// a restart the node gets Restore(last local snapshot) and then every later entry again; a follower
// whose next entry was compacted away gets Restore(leader snapshot); leadership is a label.
package fx

import (
	"bytes"
	"fmt"
	"io"
	"os"
	"path/filepath"
	"sort"
	"strings"
	"sync"
	"sync/atomic"

	"github.com/bbva/qed/balloon"
	"github.com/bbva/qed/balloon/hyper"
	"github.com/bbva/qed/consensus"
	"github.com/bbva/qed/crypto/hashing"
	"github.com/bbva/qed/storage"
	"github.com/bbva/qed/storage/rocks"
	"github.com/bbva/qed/verifx/ev"
	"github.com/bbva/qed/verifx/hx"
	"github.com/hashicorp/raft"
)

// ---------------------------------------------------------------- events

type Event struct {
	Kind string `json:"kind"` // propose | deliver | restart | crashBefore | storeError | snapshot | install | join | transfer
	R    int    `json:"replica,omitempty"`
	K    int    `json:"bulk,omitempty"`
}

func (e Event) String() string {
	switch e.Kind {
	case "propose":
		return fmt.Sprintf("propose(%d)", e.K)
	case "join":
		return "join"
	}
	return fmt.Sprintf("%s(r%d)", e.Kind, e.R)
}

func PathString(p []Event) string {
	s := make([]string, len(p))
	for i, e := range p {
		s[i] = e.String()
	}
	return strings.Join(s, " ")
}

// digests proposed, in order: crafted collisions first
var digestNames = []string{"X", "Y255", "Sa", "Y24", "Sb", "Z", "Y128", "T", "Y254", "Z255", "Y27", "Y31", "Y23", "Y28", "Y32"}

// DigestFn, when set, replaces the crafted digests (conformance runs use the digests the real server
// computes from its events).
var DigestFn func(i int) []byte

func Digest(i int) []byte {
	if DigestFn != nil {
		return DigestFn(i)
	}
	if i < len(digestNames) {
		return hx.ByName(digestNames[i])[0].D
	}
	return hx.SeqDigest(i)
}

type Entry struct {
	Index   uint64
	Data    []byte
	Digests [][]byte
	First   uint64 // version of the first event of the entry
}

// ---------------------------------------------------------------- store wrapper (crash seam)

type crashStore struct {
	storage.ManagedStore
	failNext int32
	errNext  int32 // the next Mutate is refused with an error (disk full, I/O error): nothing is written
}

type crashPanic struct{}

func (c *crashStore) Mutate(m []*storage.Mutation, meta []byte) error {
	if atomic.CompareAndSwapInt32(&c.failNext, 1, 0) {
		panic(crashPanic{}) // the process "dies" immediately before the store write of this apply
	}
	if atomic.CompareAndSwapInt32(&c.errNext, 1, 0) {
		return fmt.Errorf("verif: the store refuses this write batch")
	}
	return c.ManagedStore.Mutate(m, meta)
}

// ---------------------------------------------------------------- replica

type rop struct {
	kind string // apply | restart | crashBefore | snapshot | install
	idx  uint64
	src  int
	snap []byte
}

type Replica struct {
	ID      int
	Dir     string
	rs      *rocks.RocksDBStore
	cs      *crashStore
	Node    *consensus.RaftNode
	bc      *hyper.BatchCache
	keys    [][]byte
	Applied uint64 // raft's lastApplied for this replica
	SnapIdx uint64 // index of the last local raft snapshot (0 = none)
	Snap    []byte
	ops     []rop
	joined  bool
}

var (
	poolMu sync.Mutex
	pool   []*hyper.BatchCache
	dirSeq int64
)

func getCache() *hyper.BatchCache {
	poolMu.Lock()
	defer poolMu.Unlock()
	if n := len(pool); n > 0 {
		c := pool[n-1]
		pool = pool[:n-1]
		return c
	}
	return hyper.NewBatchCache(hyper.DefaultBatchLevels)
}

func putCache(c *hyper.BatchCache, keys [][]byte) {
	if c != nil && c.VerifReset(keys) {
		poolMu.Lock()
		pool = append(pool, c)
		poolMu.Unlock()
	}
}

func (r *Replica) open() error {
	s, err := rocks.NewRocksDBStore(r.Dir, 0)
	if err != nil {
		return err
	}
	r.rs = s
	r.cs = &crashStore{ManagedStore: s}
	r.bc = getCache()
	n, err := consensus.VerifNewBareNode(fmt.Sprintf("r%d", r.ID), r.cs, r.bc, nil)
	if err != nil {
		return err
	}
	r.Node = n
	return nil
}

// shutdown: clean=true is RaftNode.Close's order for a bare node (balloon, then store); clean=false
// drops the node (nothing in the balloon is flushed at Close anyway) and releases the DB handle.
func (r *Replica) shutdown() {
	if r.Node != nil {
		r.Node.VerifCloseBare()
		r.Node = nil
	}
	putCache(r.bc, r.keys)
	r.bc = nil
	if r.rs != nil {
		r.rs.Close()
		r.rs = nil
	}
}

func (r *Replica) destroy() {
	r.shutdown()
	os.RemoveAll(r.Dir)
}

// ---------------------------------------------------------------- cluster

type Cluster struct {
	Run    *ev.Run
	Base   string
	R      []*Replica
	Log    []Entry
	Leader int
	Acked  []*balloon.Snapshot // by version: what the leader of the time returned to the client
	Events [][]byte            // accepted event digests, by version
	Path   []Event
	MaxRep int
	quiet  bool // replaying: no oracle
	dirty  map[int]bool
	// Tags selects which classes of violations this run reports ("C05" versions/exactly-once,
	// "C06" replica agreement, "C09" state transfer); nil = all.
	Tags   map[string]bool
	broken bool // a replica could not be brought up again: the path ends here
}

func NewCluster(run *ev.Run, replicas, maxRep int) (*Cluster, error) {
	c := &Cluster{Run: run, Base: filepath.Join(os.Getenv("VERIF_SCRATCH_DIR"), fmt.Sprintf("cl%d", atomic.AddInt64(&dirSeq, 1))), MaxRep: maxRep, dirty: map[int]bool{}}
	for i := 0; i < replicas; i++ {
		if err := c.addReplica(); err != nil {
			return nil, err
		}
	}
	return c, nil
}

func (c *Cluster) addReplica() error {
	r := &Replica{ID: len(c.R), Dir: filepath.Join(c.Base, fmt.Sprintf("r%d-%d", len(c.R), atomic.AddInt64(&dirSeq, 1))), joined: true}
	os.MkdirAll(r.Dir, 0755)
	if err := r.open(); err != nil {
		return err
	}
	c.R = append(c.R, r)
	return nil
}

func (c *Cluster) Destroy() {
	for _, r := range c.R {
		r.destroy()
	}
	os.RemoveAll(c.Base)
}

func (c *Cluster) viol(sig string, more map[string]interface{}) {
	if c.quiet {
		return
	}
	if c.Tags != nil && len(sig) > 5 && sig[0] == '[' && !c.Tags[sig[1:4]] {
		return
	}
	d := map[string]interface{}{"path": PathString(c.Path), "events": c.Path}
	for k, v := range more {
		d[k] = v
	}
	c.Run.Violation(sig, d)
}

func normPanic(x interface{}) string {
	msg := fmt.Sprint(x)
	if i := strings.Index(msg, "\n"); i >= 0 {
		msg = msg[:i]
	}
	var b strings.Builder
	prev := false
	for _, ch := range msg {
		if ch >= '0' && ch <= '9' {
			if !prev {
				b.WriteByte('#')
			}
			prev = true
		} else {
			b.WriteRune(ch)
			prev = false
		}
	}
	s := b.String()
	if len(s) > 110 {
		s = s[:110]
	}
	return s
}

// apply delivers entry e to replica r through the real RaftNode.Apply.
// returns snapshots (nil if the entry was filtered as already applied) and whether the apply crashed.
func (c *Cluster) apply(r *Replica, e Entry, crashBefore bool) (snaps []*balloon.Snapshot, already bool, crashed bool) {
	if crashBefore {
		atomic.StoreInt32(&r.cs.failNext, 1)
	}
	for _, d := range e.Digests {
		r.keys = append(r.keys, d)
	}
	var res interface{}
	func() {
		defer func() {
			if x := recover(); x != nil {
				if _, ok := x.(crashPanic); ok {
					crashed = true
					return
				}
				crashed = true
				c.viol("[C06] replica fails while applying a committed entry: "+normPanic(x), map[string]interface{}{"replica": r.ID, "index": e.Index})
			}
		}()
		res = r.Node.Apply(&raft.Log{Index: e.Index, Term: 1, Type: raft.LogCommand, Data: e.Data})
	}()
	atomic.StoreInt32(&r.cs.failNext, 0)
	if crashed {
		return nil, false, true
	}
	s, err := consensus.VerifApplyResult(res)
	if err != nil {
		return nil, true, false
	}
	return s, false, false
}

// Enabled lists the events that may happen next, within the workload bound.
type Bounds struct {
	MaxEntries   int
	BulkSizes    []int
	Restarts     bool
	Crashes      bool
	Snapshots    bool
	Transfers    bool
	Joins        bool
	MaxRestarts  int
	MaxSnapshots int
}

func (c *Cluster) count(kind string) int {
	n := 0
	for _, e := range c.Path {
		if e.Kind == kind {
			n++
		}
	}
	return n
}

func (c *Cluster) Enabled(b Bounds) []Event {
	var out []Event
	if len(c.Log) < b.MaxEntries {
		for _, k := range b.BulkSizes {
			out = append(out, Event{Kind: "propose", K: k})
		}
	}
	ld := c.R[c.Leader]
	for _, r := range c.R {
		if r.ID != c.Leader && r.Applied < uint64(len(c.Log)) {
			if ld.SnapIdx > r.Applied { // the leader may have compacted the entries r needs: raft then installs its snapshot
				out = append(out, Event{Kind: "install", R: r.ID})
			}
			out = append(out, Event{Kind: "deliver", R: r.ID})
			if b.Crashes && c.count("crashBefore") < 1 {
				out = append(out, Event{Kind: "crashBefore", R: r.ID})
			}
			if b.Crashes && c.count("storeError") < 1 {
				out = append(out, Event{Kind: "storeError", R: r.ID})
			}
		}
		if b.Restarts && c.count("restart")+c.count("crashBefore")+c.count("storeError") < b.MaxRestarts {
			out = append(out, Event{Kind: "restart", R: r.ID})
		}
		if b.Snapshots && r.Applied > r.SnapIdx && c.count("snapshot") < b.MaxSnapshots {
			out = append(out, Event{Kind: "snapshot", R: r.ID})
		}
		if b.Transfers && r.ID != c.Leader && c.count("transfer") < 2 {
			out = append(out, Event{Kind: "transfer", R: r.ID})
		}
	}
	if b.Joins && len(c.R) < c.MaxRep {
		out = append(out, Event{Kind: "join"})
	}
	return out
}

// catchUp makes the leader apply every committed entry it has not applied yet (a new leader does this
// before it serves new proposals).
func (c *Cluster) catchUp(r *Replica) bool {
	for r.Applied < uint64(len(c.Log)) {
		e := c.Log[r.Applied]
		_, already, crashed := c.apply(r, e, false)
		if crashed {
			return false
		}
		if already {
			c.viol("[C05] a committed entry delivered for the first time is rejected as already applied", map[string]interface{}{"replica": r.ID, "index": e.Index})
		}
		r.Applied++
		r.ops = append(r.ops, rop{kind: "apply", idx: e.Index})
	}
	return true
}

// Step executes one event with the real handlers. ok=false: the run cannot continue on this path.
func (c *Cluster) Step(e Event) (ok bool) {
	c.Path = append(c.Path, e)
	switch e.Kind {
	case "propose":
		ld := c.R[c.Leader]
		c.dirty[ld.ID] = true
		if !c.catchUp(ld) {
			return false
		}
		var ds [][]byte
		hs := make([]hashing.Digest, e.K)
		for i := 0; i < e.K; i++ {
			d := Digest(len(c.Events) + i)
			ds = append(ds, d)
			hs[i] = d
		}
		data, err := consensus.VerifEncodeAddCommand(hs)
		if err != nil {
			c.viol("[C05] encoding an add command fails: "+err.Error(), nil)
			return false
		}
		ent := Entry{Index: uint64(len(c.Log) + 1), Data: data, Digests: ds, First: uint64(len(c.Events))}
		c.Log = append(c.Log, ent)
		snaps, already, crashed := c.apply(ld, ent, false)
		if crashed {
			return false
		}
		if already || len(snaps) != e.K {
			c.viol("[C05] the leader does not acknowledge a new entry with one snapshot per event", map[string]interface{}{"index": ent.Index, "already": already, "snapshots": len(snaps)})
			return false
		}
		ld.Applied++
		ld.ops = append(ld.ops, rop{kind: "apply", idx: ent.Index})
		for i, s := range snaps {
			want := uint64(len(c.Events))
			if s.Version != want || !bytes.Equal(s.EventDigest, ds[i]) {
				c.viol("[C05] an acknowledged insertion does not carry the next dense version and its own event digest", map[string]interface{}{"got": s.Version, "want": want})
			}
			c.Acked = append(c.Acked, s)
			c.Events = append(c.Events, ds[i])
		}
	case "deliver", "crashBefore":
		r := c.R[e.R]
		c.dirty[r.ID] = true
		ent := c.Log[r.Applied]
		snaps, already, crashed := c.apply(r, ent, e.Kind == "crashBefore")
		if e.Kind == "crashBefore" {
			if !crashed {
				c.viol("[C05] harness: crash seam did not fire (apply performed no store write)", map[string]interface{}{"replica": r.ID})
			}
			r.ops = append(r.ops, rop{kind: "crashBefore", idx: ent.Index})
			c.reboot(r, false)
			return !c.broken
		}
		if crashed {
			return false
		}
		if already {
			c.viol("[C05] a committed entry delivered for the first time is rejected as already applied", map[string]interface{}{"replica": r.ID, "index": ent.Index})
		}
		r.Applied++
		r.ops = append(r.ops, rop{kind: "apply", idx: ent.Index})
		for i, s := range snaps { // snapshots a follower computes locally must equal what the leader acknowledged
			v := ent.First + uint64(i)
			if int(v) < len(c.Acked) {
				a := c.Acked[v]
				if s.Version != a.Version || !bytes.Equal(s.HistoryDigest, a.HistoryDigest) || !bytes.Equal(s.HyperDigest, a.HyperDigest) || !bytes.Equal(s.EventDigest, a.EventDigest) {
					c.viol("[C06] a replica computes a snapshot that differs from the one the leader acknowledged for the same entry", map[string]interface{}{"replica": r.ID, "version": v})
				}
			}
		}
	case "storeError":
		// the store refuses the write batch of the next entry delivered to r. The node must not go on
		// as if nothing had happened: either the process dies (then it is restarted and the entry is
		// delivered again, like after a crash) or it must be exactly where it was before the entry.
		r := c.R[e.R]
		c.dirty[r.ID] = true
		ent := c.Log[r.Applied]
		atomic.StoreInt32(&r.cs.errNext, 1)
		died := false
		func() {
			defer func() {
				if x := recover(); x != nil {
					died = true
				}
			}()
			r.Node.Apply(&raft.Log{Index: ent.Index, Term: 1, Type: raft.LogCommand, Data: ent.Data})
		}()
		atomic.StoreInt32(&r.cs.errNext, 0)
		r.ops = append(r.ops, rop{kind: "storeError", idx: ent.Index})
		if died {
			c.reboot(r, false)
			return !c.broken
		}
		// the node lives on: raft considers the entry applied and will never deliver it again
		for _, d := range ent.Digests {
			r.keys = append(r.keys, d)
		}
		r.Applied++
		c.viol("[C05] a replica whose store refused the write batch of an entry keeps running without the entry (raft will not deliver it again): its versions no longer match the log", map[string]interface{}{"replica": r.ID, "index": ent.Index})
		return false
	case "restart":
		r := c.R[e.R]
		c.dirty[r.ID] = true
		r.ops = append(r.ops, rop{kind: "restart"})
		c.reboot(r, true)
	case "snapshot":
		r := c.R[e.R]
		c.dirty[r.ID] = true
		b, err := r.Node.VerifSnapshotBytes()
		if err != nil {
			c.viol("[C09] taking a raft snapshot of the FSM fails: "+err.Error(), map[string]interface{}{"replica": r.ID})
			return false
		}
		r.Snap, r.SnapIdx = b, r.Applied
		r.ops = append(r.ops, rop{kind: "snapshot"})
	case "install":
		r := c.R[e.R]
		ld := c.R[c.Leader]
		c.dirty[r.ID] = true
		if err := c.install(r, ld, ld.Snap, ld.SnapIdx); err != nil {
			c.viol("[C09] state transfer from the leader fails: "+normPanic(err), map[string]interface{}{"replica": r.ID, "applied": r.Applied, "leaderSnapshotIndex": ld.SnapIdx})
			return false
		}
		r.ops = append(r.ops, rop{kind: "install", src: ld.ID, snap: ld.Snap, idx: ld.SnapIdx})
	case "join":
		if err := c.addReplica(); err != nil {
			c.viol("[C06] a new replica cannot be created: "+err.Error(), nil)
			return false
		}
		c.dirty[len(c.R)-1] = true
	case "transfer":
		c.Leader = e.R
	}
	return !c.broken
}

// install = raft's InstallSnapshot on follower r: the real Restore with the leader's snapshot; the gRPC
// fetch is replaced by the leader's real FetchSnapshot served in-process.
func (c *Cluster) install(r, src *Replica, snap []byte, snapIdx uint64) (err error) {
	r.Node.VerifRaftSentinel(true)
	r.Node.VerifSetHooks(&consensus.VerifHooks{Fetch: func(req *consensus.FetchSnapshotRequest) (consensus.ClusterService_FetchSnapshotClient, error) {
		return src.Node.VerifServeStream(req)
	}})
	defer func() {
		r.Node.VerifSetHooks(nil)
		r.Node.VerifRaftSentinel(false)
		if x := recover(); x != nil {
			err = fmt.Errorf("panic: %v", x)
		}
	}()
	if e := r.Node.Restore(io.NopCloser(bytes.NewReader(snap))); e != nil {
		return e
	}
	r.keys = append([][]byte{}, src.keys...)
	r.Applied, r.SnapIdx, r.Snap = snapIdx, snapIdx, snap
	return nil
}

// reboot: stop (cleanly or not), start again on the same data, then what raft does at start-up:
// Restore(last local snapshot) and re-delivery of every later entry the node had applied.
func (c *Cluster) reboot(r *Replica, clean bool) {
	had := r.Applied
	r.shutdown()
	if err := r.open(); err != nil {
		c.viol("[C06] a stopped replica cannot be started again on its data: "+normPanic(err), map[string]interface{}{"replica": r.ID})
		c.broken = true
		return
	}
	r.Applied = 0
	if r.Snap != nil {
		if err := r.Node.Restore(io.NopCloser(bytes.NewReader(r.Snap))); err != nil {
			c.viol("[C06] Restore of the local snapshot at start-up fails: "+normPanic(err), map[string]interface{}{"replica": r.ID})
		}
		r.Applied = r.SnapIdx
	}
	idx0, ver0 := r.Node.VerifState()
	for r.Applied < had {
		e := c.Log[r.Applied]
		_, already, crashed := c.apply(r, e, false)
		if crashed {
			return
		}
		if !already {
			c.viol("[C05] a log entry replayed after a restart is applied a second time", map[string]interface{}{"replica": r.ID, "index": e.Index})
		}
		r.Applied++
	}
	if idx1, ver1 := r.Node.VerifState(); idx1 != idx0 || ver1 != ver0 {
		c.viol("[C05] replaying already-applied entries after a restart changes the FSM state", map[string]interface{}{"replica": r.ID})
	}
}

// Replay builds the cluster state of a path without evaluating oracles.
func Replay(run *ev.Run, replicas, maxRep int, path []Event) (*Cluster, bool) {
	c, err := NewCluster(run, replicas, maxRep)
	if err != nil {
		panic(err)
	}
	c.quiet = true
	for _, e := range path {
		if !c.Step(e) {
			c.quiet = false
			return c, false
		}
	}
	c.quiet = false
	c.dirty = map[int]bool{}
	return c, true
}

// ---------------------------------------------------------------- golden states

// Golden holds, for a given committed log, what a fault-free replica looks like after every index.
type Golden struct {
	Dump    []string // by applied index (0..n): hash of the four table dumps
	Cache   []string // hash of the filled hyper batch-cache buckets
	Version []uint64
	Snaps   []*balloon.Snapshot // by version
}

var (
	goldenMu sync.Mutex
	goldens  = map[string]*Golden{}
)

func logKey(log []Entry) string {
	var b strings.Builder
	for _, e := range log {
		fmt.Fprintf(&b, "%d,", len(e.Digests))
	}
	return b.String()
}

func tableHash(s storage.Store) string {
	var parts []string
	for _, t := range []storage.Table{storage.HyperTable, storage.HyperCacheTable, storage.HistoryTable, storage.FSMStateTable} {
		parts = append(parts, hx.HashDump(hx.DumpTable(s, t)))
	}
	return strings.Join(parts, "/")
}

// TreeTablesHash: the three tree tables in the format of the node child's "state" answer.
func (r *Replica) TreeTablesHash() string {
	t := ""
	for _, tb := range []storage.Table{storage.HyperTable, storage.HyperCacheTable, storage.HistoryTable} {
		t += hx.HashDump(hx.DumpTable(r.rs, tb)) + "/"
	}
	return t
}

func (c *Cluster) Golden() *Golden {
	k := logKey(c.Log)
	goldenMu.Lock()
	g, ok := goldens[k]
	goldenMu.Unlock()
	if ok {
		return g
	}
	gc, err := NewCluster(c.Run, 1, 1)
	if err != nil {
		panic(err)
	}
	gc.quiet = true
	defer gc.Destroy()
	r := gc.R[0]
	g = &Golden{}
	g.Dump = append(g.Dump, tableHash(r.rs))
	g.Cache = append(g.Cache, hx.HashMap(r.Node.VerifBalloon().VerifHyperCacheDump(nil)))
	g.Version = append(g.Version, 0)
	for _, e := range c.Log {
		snaps, _, crashed := gc.apply(r, e, false)
		if crashed {
			break
		}
		g.Snaps = append(g.Snaps, snaps...)
		g.Dump = append(g.Dump, tableHash(r.rs))
		g.Cache = append(g.Cache, hx.HashMap(r.Node.VerifBalloon().VerifHyperCacheDump(r.keys)))
		g.Version = append(g.Version, r.Node.VerifBalloon().Version())
	}
	goldenMu.Lock()
	goldens[k] = g
	goldenMu.Unlock()
	return g
}

// ---------------------------------------------------------------- oracles

// CheckReplica compares replica r with the fault-free replica at the same applied index and verifies
// every proof it serves against the snapshots acknowledged by the leader.
func (c *Cluster) CheckReplica(r *Replica, proofs bool) {
	if r.Node == nil || c.broken {
		return
	}
	g := c.Golden()
	if int(r.Applied) >= len(g.Dump) {
		return
	}
	more := map[string]interface{}{"replica": r.ID, "applied": r.Applied}
	b := r.Node.VerifBalloon()
	c.Run.Eval(1)
	if b.Version() != g.Version[r.Applied] {
		more["version"], more["want"] = b.Version(), g.Version[r.Applied]
		c.viol("[C05] replica's current version differs from the number of events it has applied", more)
	}
	idx, ver := r.Node.VerifState()
	if r.Applied > 0 && (idx != r.Applied || ver+1 != b.Version()) {
		more["fsmIndex"], more["fsmVersion"] = idx, ver
		c.viol("[C05] persisted FSM state (applied index, balloon version) does not match what the replica applied", more)
	}
	if h := tableHash(r.rs); h != g.Dump[r.Applied] {
		c.viol("[C06] replica's stored tables differ from those of a fault-free replica at the same applied index", more)
	}
	if h := hx.HashMap(b.VerifHyperCacheDump(r.keys)); h != g.Cache[r.Applied] {
		c.viol("[C06] replica's in-memory hyper cache differs from that of a fault-free replica at the same applied index", more)
	}
	if !proofs || b.Version() == 0 {
		return
	}
	if int(b.Version()) > len(c.Acked) || int(b.Version()) > len(c.Events) {
		c.viol("[C05] a replica holds more events than the leader acknowledged", more)
		return
	}
	cur := b.Version() - 1
	for v := uint64(0); v <= cur; v++ {
		e := c.Events[v]
		for q := v; q <= cur; q++ {
			c.Run.Eval(1)
			var p *balloon.MembershipProof
			pn, msg := ev.Catch(func() {
				var err error
				p, err = r.Node.QueryDigestMembershipConsistency(e, q)
				if err != nil {
					panic("error: " + err.Error())
				}
			})
			m2 := map[string]interface{}{"replica": r.ID, "applied": r.Applied, "event": v, "q": q}
			if pn {
				c.viol("[C06] a replica fails to answer a membership query for an event it has applied: "+normPanic(msg), m2)
				continue
			}
			if p.CurrentVersion != cur {
				c.viol("[C05] the current version reported by a proof is not the number of applied events minus one", m2)
			}
			snap := &balloon.Snapshot{HistoryDigest: c.Acked[q].HistoryDigest, HyperDigest: c.Acked[cur].HyperDigest}
			w, _, err := hx.WireMembership(p)
			if err != nil || !p.Exists || !w.DigestVerify(e, snap) {
				c.viol("[C06] a membership proof served by a replica does not verify against the snapshots the leader acknowledged", m2)
			}
		}
	}
	for j := uint64(0); j <= cur; j++ {
		for i := uint64(0); i <= j; i++ {
			c.Run.Eval(1)
			m2 := map[string]interface{}{"replica": r.ID, "applied": r.Applied, "start": i, "end": j}
			var p *balloon.IncrementalProof
			pn, msg := ev.Catch(func() {
				var err error
				p, err = r.Node.QueryConsistency(i, j)
				if err != nil {
					panic("error: " + err.Error())
				}
			})
			if pn {
				c.viol("[C06] a replica fails to answer a consistency query for versions it has applied: "+normPanic(msg), m2)
				continue
			}
			w, _, err := hx.WireIncremental(p)
			if err != nil || !w.Verify(c.Acked[i], c.Acked[j]) {
				c.viol("[C06] a consistency proof served by a replica does not verify against the snapshots the leader acknowledged", m2)
			}
		}
	}
}

// CheckDirty checks the replicas the last Step touched (the others are exactly as they were in the
// predecessor state, where they were checked when that state was first reached).
func (c *Cluster) CheckDirty(proofs bool) {
	for id := range c.dirty {
		if id < len(c.R) {
			c.CheckReplica(c.R[id], proofs)
		}
	}
}

// Canon is the canonical form of the cluster state: followers are interchangeable, the leader is not.
func (c *Cluster) Canon() string {
	var fs []string
	for _, r := range c.R {
		idx, ver := r.Node.VerifState()
		s := fmt.Sprintf("a%d/s%d/i%d/v%d/%s/%s", r.Applied, r.SnapIdx, idx, ver, tableHash(r.rs)[:16], hx.HashMap(r.Node.VerifBalloon().VerifHyperCacheDump(r.keys))[:8])
		if r.ID == c.Leader {
			s = "L:" + s
		}
		fs = append(fs, s)
	}
	sort.Strings(fs)
	return logKey(c.Log) + "|" + strings.Join(fs, "|")
}

// Repair brings the replicas touched since the last Replay/Repair back to the state of `path`
// (the cluster's state before the last Step) by rebuilding them from their own operation history.
func (c *Cluster) Undo(saved *Saved) {
	// restore the scalar parts
	c.Log = c.Log[:saved.logLen]
	c.Acked = c.Acked[:saved.ackLen]
	c.Events = c.Events[:saved.evLen]
	c.Path = c.Path[:saved.pathLen]
	c.Leader = saved.leader
	for len(c.R) > saved.nRep {
		c.R[len(c.R)-1].destroy()
		c.R = c.R[:len(c.R)-1]
	}
	for id := range c.dirty {
		if id >= len(c.R) {
			continue
		}
		r := c.R[id]
		ops := saved.ops[id]
		c.rebuild(r, ops)
	}
	c.dirty = map[int]bool{}
}

type Saved struct {
	logLen, ackLen, evLen, pathLen, leader, nRep int
	ops                                         [][]rop
}

func (c *Cluster) Save() *Saved {
	s := &Saved{logLen: len(c.Log), ackLen: len(c.Acked), evLen: len(c.Events), pathLen: len(c.Path), leader: c.Leader, nRep: len(c.R)}
	for _, r := range c.R {
		s.ops = append(s.ops, append([]rop{}, r.ops...))
	}
	c.dirty = map[int]bool{}
	return s
}

// rebuild replays a replica's own operation history on a fresh directory (no oracles).
func (c *Cluster) rebuild(r *Replica, ops []rop) {
	q := c.quiet
	c.quiet = true
	defer func() { c.quiet = q }()
	r.destroy()
	r.Dir = filepath.Join(c.Base, fmt.Sprintf("r%d-%d", r.ID, atomic.AddInt64(&dirSeq, 1)))
	os.MkdirAll(r.Dir, 0755)
	r.keys, r.Applied, r.SnapIdx, r.Snap, r.ops = nil, 0, 0, nil, nil
	if err := r.open(); err != nil {
		panic(err)
	}
	for _, o := range ops {
		switch o.kind {
		case "apply":
			c.apply(r, c.Log[o.idx-1], false)
			r.Applied = o.idx
		case "crashBefore":
			c.apply(r, c.Log[o.idx-1], true)
			c.reboot(r, false)
		case "storeError":
			atomic.StoreInt32(&r.cs.errNext, 1)
			func() {
				defer func() { recover() }()
				r.Node.Apply(&raft.Log{Index: c.Log[o.idx-1].Index, Term: 1, Type: raft.LogCommand, Data: c.Log[o.idx-1].Data})
			}()
			atomic.StoreInt32(&r.cs.errNext, 0)
			c.reboot(r, false)
		case "restart":
			c.reboot(r, true)
		case "snapshot":
			b, _ := r.Node.VerifSnapshotBytes()
			r.Snap, r.SnapIdx = b, r.Applied
		case "install":
			// the source's write-ahead log is append-only, so its present state serves the same batches
			c.install(r, c.R[o.src], o.snap, o.idx)
		}
	}
	r.ops = append([]rop{}, ops...)
}

// ---------------------------------------------------------------- version-gap refusal (C09)

type GapCase struct {
	Entries         []int `json:"entries"`         // bulk sizes of the committed log
	PurgeAfter      int   `json:"purgeAfter"`      // the leader's WAL is purged after this many entries
	FollowerApplied int   `json:"followerApplied"` // entries the follower applied itself (0 = brand-new node)
}

// RunGapCase returns "refused", "transferred" or "violation".
func RunGapCase(run *ev.Run, gc GapCase) string {
	c := &Cluster{Run: run, Base: filepath.Join(os.Getenv("VERIF_SCRATCH_DIR"), fmt.Sprintf("gap%d", atomic.AddInt64(&dirSeq, 1))), MaxRep: 2, dirty: map[int]bool{}}
	defer c.Destroy()
	viol := func(sig string, more map[string]interface{}) string {
		d := map[string]interface{}{"gapCase": gc}
		for k, v := range more {
			d[k] = v
		}
		run.Violation(sig, d)
		return "violation"
	}
	// leader: a store that keeps no archived write-ahead log
	ld := &Replica{ID: 0, Dir: filepath.Join(c.Base, "leader"), joined: true}
	os.MkdirAll(ld.Dir, 0755)
	openLeader := func() error {
		o := rocks.DefaultOptions()
		o.Path, o.WALSizeLimitMB, o.WALTtlSeconds = ld.Dir, 0, 0
		s, err := rocks.NewRocksDBStoreWithOpts(o)
		if err != nil {
			return err
		}
		ld.rs, ld.cs, ld.bc = s, &crashStore{ManagedStore: s}, getCache()
		n, err := consensus.VerifNewBareNode("r0", ld.cs, ld.bc, nil)
		if err != nil {
			return err
		}
		ld.Node = n
		return nil
	}
	if err := openLeader(); err != nil {
		panic(err)
	}
	c.R = append(c.R, ld)
	if err := c.addReplica(); err != nil {
		panic(err)
	}
	fl := c.R[1]
	c.quiet = true
	ev0 := 0
	for i, k := range gc.Entries {
		var ds [][]byte
		hs := make([]hashing.Digest, k)
		for j := 0; j < k; j++ {
			d := Digest(ev0 + j)
			ds, hs[j] = append(ds, d), d
		}
		data, _ := consensus.VerifEncodeAddCommand(hs)
		ent := Entry{Index: uint64(i + 1), Data: data, Digests: ds, First: uint64(ev0)}
		c.Log = append(c.Log, ent)
		snaps, _, crashed := c.apply(ld, ent, false)
		if crashed || len(snaps) != k {
			return viol("[C09] harness: leader failed to apply", nil)
		}
		ld.Applied++
		c.Acked = append(c.Acked, snaps...)
		c.Events = append(c.Events, ds...)
		ev0 += k
		if i < gc.FollowerApplied {
			c.apply(fl, ent, false)
			fl.Applied++
		}
		if i+1 == gc.PurgeAfter {
			ld.shutdown()
			if err := openLeader(); err != nil {
				panic(err)
			}
		}
	}
	c.quiet = false
	g := c.Golden()
	beforeDump, beforeVer := tableHash(fl.rs), fl.Node.VerifBalloon().Version()
	snap, err := ld.Node.VerifSnapshotBytes()
	if err != nil {
		return viol("[C09] taking a raft snapshot of the FSM fails: "+err.Error(), nil)
	}
	c.Path = []Event{{Kind: "gap-scenario"}}
	ierr := c.install(fl, ld, snap, ld.Applied)
	run.Eval(1)
	afterDump, afterVer := tableHash(fl.rs), fl.Node.VerifBalloon().Version()
	if ierr != nil {
		if afterDump != beforeDump || afterVer != beforeVer {
			return viol("[C09] a refused state transfer leaves the follower modified", map[string]interface{}{"error": normPanic(ierr)})
		}
		return "refused"
	}
	n := len(gc.Entries)
	if afterDump != g.Dump[n] || afterVer != g.Version[n] {
		if afterDump == beforeDump && afterVer == beforeVer {
			return viol("[C09] a state transfer that transferred nothing reports success (the follower is left behind while raft believes it restored)", map[string]interface{}{"followerVersion": afterVer})
		}
		return viol("[C09] a state transfer that leaves a gap in the version sequence is applied instead of refused", map[string]interface{}{"followerVersion": afterVer, "leaderVersion": g.Version[n]})
	}
	fl.Applied = uint64(n)
	c.CheckReplica(fl, true)
	return "transferred"
}
