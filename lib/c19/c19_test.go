//go:build verif && go1.18

// Package c19: agents alert exactly when verification fails; the publisher forwards each snapshot once.
// The REAL task bodies of the auditor (membershipFactory), monitor (incrementalFactory) and publisher
// (publisherFactory) run on a real gossip.Agent whose Qed is the real client.HTTPClient wired by a
// RoundTripper to the real apihttp mux over a real balloon; notifier and snapshot store are recording
// fakes. Exhaustive over logs, batches and a tampering alphabet; the expected verdict for every
// tampering is computed by an independent reference verifier.
package c19

import (
	"bytes"
	"context"
	"encoding/json"
	"errors"
	"fmt"
	"io/ioutil"
	"net/http"
	"net/http/httptest"
	"os"
	"sort"
	"strings"
	"sync"
	"testing"

	"github.com/bbva/qed/api/apihttp"
	"github.com/bbva/qed/balloon"
	"github.com/bbva/qed/client"
	"github.com/bbva/qed/cmd"
	"github.com/bbva/qed/consensus"
	"github.com/bbva/qed/crypto/hashing"
	"github.com/bbva/qed/crypto/sign"
	"github.com/bbva/qed/gossip"
	"github.com/bbva/qed/protocol"
	"github.com/bbva/qed/verifx/ev"
	"github.com/bbva/qed/verifx/hx"
	"github.com/bbva/qed/verifx/ref"
	"github.com/bbva/qed/verifx/sx"
)

// ---------------------------------------------------------------- the log server (real balloon behind the real API mux)

type backend struct{ d *hx.Driver }

func (b backend) Add(e []byte) (*balloon.Snapshot, error) { return nil, errors.New("read-only") }
func (b backend) AddBulk(x [][]byte) ([]*balloon.Snapshot, error) {
	return nil, errors.New("read-only")
}
func (b backend) QueryDigestMembershipConsistency(k hashing.Digest, v uint64) (*balloon.MembershipProof, error) {
	return b.d.B.QueryDigestMembershipConsistency(k, v)
}
func (b backend) QueryMembershipConsistency(e []byte, v uint64) (*balloon.MembershipProof, error) {
	return b.d.B.QueryMembershipConsistency(e, v)
}
func (b backend) QueryDigestMembership(k hashing.Digest) (*balloon.MembershipProof, error) {
	return b.d.B.QueryDigestMembership(k)
}
func (b backend) QueryMembership(e []byte) (*balloon.MembershipProof, error) {
	return b.d.B.QueryMembership(e)
}
func (b backend) QueryConsistency(s, e uint64) (*balloon.IncrementalProof, error) {
	return b.d.B.QueryConsistency(s, e)
}
func (b backend) ClusterInfo() *consensus.ClusterInfo {
	return &consensus.ClusterInfo{LeaderId: "n0", Nodes: map[string]*consensus.NodeInfo{"n0": b.Info()}}
}
func (b backend) Info() *consensus.NodeInfo {
	return &consensus.NodeInfo{NodeId: "n0", HttpAddr: "qed.test:8800"}
}
func (b backend) IsLeader() bool { return true }

// edit of a server answer (nil = honest)
type edit struct {
	Kind  string `json:"kind"`            // scalar | flipHyper | flipHistory | dropHyper | dropHistory | flipInc | dropInc
	Field string `json:"field,omitempty"` // scalar field
	Delta int    `json:"delta,omitempty"`
	Entry int    `json:"entry,omitempty"` // index into the sorted audit-path keys
}

type transport struct {
	mux     http.Handler
	ed      *edit
	mu      sync.Mutex
	lastMem *protocol.MembershipResult    // what the client actually received
	lastInc *protocol.IncrementalResponse //
	status  int
}

func sortedKeys(m map[string]hashing.Digest) []string {
	ks := make([]string, 0, len(m))
	for k := range m {
		ks = append(ks, k)
	}
	sort.Strings(ks)
	return ks
}

func flipped(d hashing.Digest) hashing.Digest {
	o := append(hashing.Digest{}, d...)
	if len(o) == 0 {
		return hashing.Digest{1}
	}
	o[len(o)/2] ^= 0x40
	return o
}

func (t *transport) RoundTrip(req *http.Request) (*http.Response, error) {
	var body []byte
	if req.Body != nil {
		body, _ = ioutil.ReadAll(req.Body)
	}
	r2 := httptest.NewRequest(req.Method, req.URL.String(), bytes.NewReader(body))
	r2.Header = req.Header
	rr := httptest.NewRecorder()
	t.mux.ServeHTTP(rr, r2)
	out := rr.Body.Bytes()
	t.mu.Lock()
	t.status = rr.Code
	if rr.Code == 200 && strings.HasSuffix(req.URL.Path, "membership") {
		var mr protocol.MembershipResult
		if json.Unmarshal(out, &mr) == nil {
			if e := t.ed; e != nil {
				switch e.Kind {
				case "scalar":
					switch e.Field {
					case "Exists":
						mr.Exists = !mr.Exists
					case "ActualVersion":
						mr.ActualVersion += uint64(e.Delta)
					case "QueryVersion":
						mr.QueryVersion += uint64(e.Delta)
					case "CurrentVersion":
						mr.CurrentVersion += uint64(e.Delta)
					case "KeyDigest":
						mr.KeyDigest = flipped(mr.KeyDigest)
					}
				case "flipHyper", "dropHyper":
					ks := sortedKeys(mr.Hyper)
					if e.Entry < len(ks) {
						if e.Kind == "flipHyper" {
							mr.Hyper[ks[e.Entry]] = flipped(mr.Hyper[ks[e.Entry]])
						} else {
							delete(mr.Hyper, ks[e.Entry])
						}
					}
				case "flipHistory", "dropHistory":
					ks := sortedKeys(mr.History)
					if e.Entry < len(ks) {
						if e.Kind == "flipHistory" {
							mr.History[ks[e.Entry]] = flipped(mr.History[ks[e.Entry]])
						} else {
							delete(mr.History, ks[e.Entry])
						}
					}
				}
				out, _ = json.Marshal(&mr)
			}
			t.lastMem = &mr
		}
	}
	if rr.Code == 200 && strings.HasSuffix(req.URL.Path, "incremental") {
		var ir protocol.IncrementalResponse
		if json.Unmarshal(out, &ir) == nil {
			if e := t.ed; e != nil {
				switch e.Kind {
				case "scalar":
					switch e.Field {
					case "Start":
						ir.Start += uint64(e.Delta)
					case "End":
						ir.End += uint64(e.Delta)
					}
				case "flipInc", "dropInc":
					ks := sortedKeys(ir.AuditPath)
					if e.Entry < len(ks) {
						if e.Kind == "flipInc" {
							ir.AuditPath[ks[e.Entry]] = flipped(ir.AuditPath[ks[e.Entry]])
						} else {
							delete(ir.AuditPath, ks[e.Entry])
						}
					}
				}
				out, _ = json.Marshal(&ir)
			}
			t.lastInc = &ir
		}
	}
	t.mu.Unlock()
	res := &http.Response{StatusCode: rr.Code, Status: http.StatusText(rr.Code), Header: rr.Header(), Body: ioutil.NopCloser(bytes.NewReader(out)), Request: req, ProtoMajor: 1, ProtoMinor: 1}
	return res, nil
}

// ---------------------------------------------------------------- recording fakes

type notifier struct {
	mu     sync.Mutex
	alerts []string
}

func (n *notifier) Alert(msg string) error {
	n.mu.Lock()
	n.alerts = append(n.alerts, msg)
	n.mu.Unlock()
	return nil
}
func (n *notifier) Start() {}
func (n *notifier) Stop()  {}

type store struct {
	mu      sync.Mutex
	snaps   map[uint64]*protocol.SignedSnapshot
	batches []*protocol.BatchSnapshots
}

func (s *store) PutBatch(b *protocol.BatchSnapshots) error {
	s.mu.Lock()
	defer s.mu.Unlock()
	cp := &protocol.BatchSnapshots{}
	cp.Snapshots = append(cp.Snapshots, b.Snapshots...)
	s.batches = append(s.batches, cp)
	return nil
}
func (s *store) PutSnapshot(v uint64, sn *protocol.SignedSnapshot) error { return nil }
func (s *store) GetRange(a, b uint64) ([]protocol.SignedSnapshot, error) { return nil, nil }
func (s *store) GetSnapshot(v uint64) (*protocol.SignedSnapshot, error) {
	s.mu.Lock()
	defer s.mu.Unlock()
	if x, ok := s.snaps[v]; ok {
		return x, nil
	}
	return nil, fmt.Errorf("snapshot %d not found", v)
}
func (s *store) DeleteRange(a, b uint64) error { return nil }
func (s *store) Count() (uint64, error)        { return uint64(len(s.snaps)), nil }

type tasks struct{}

func (tasks) Start()                  {}
func (tasks) Stop()                   {}
func (tasks) Add(t gossip.Task) error { return t() }
func (tasks) Len() int                { return 0 }

// ---------------------------------------------------------------- one world

type world struct {
	d      *hx.Driver // the log the server serves from
	pub    []*protocol.SignedSnapshot
	tr     *transport
	nt     *notifier
	st     *store
	agent  *gossip.Agent
	digest [][]byte
}

var signer = sign.NewEd25519Signer()

var (
	cmu      sync.Mutex
	counters = map[string]int{}
)

func signed(s *balloon.Snapshot) *protocol.SignedSnapshot {
	ps := protocol.Snapshot(*s)
	sig, _ := signer.Sign([]byte(fmt.Sprintf("%v", ps)))
	return &protocol.SignedSnapshot{Snapshot: &ps, Signature: sig}
}

func buildLog(names []string, comp []int) (*hx.Driver, [][]byte, error) {
	d, err := hx.NewDriver(hx.BPlus, "", 300)
	if err != nil {
		return nil, nil, err
	}
	var ds [][]byte
	for _, nd := range hx.ByName(names...) {
		ds = append(ds, nd.D)
	}
	pos := 0
	for _, k := range comp {
		if _, err := d.Apply(ds[pos:pos+k], false); err != nil {
			return nil, nil, err
		}
		pos += k
	}
	return d, ds, nil
}

// newWorld: `published` is the log whose snapshots were signed and gossiped/stored; `served` is the log
// the server answers from (the same driver for an honest server, a fork otherwise).
func newWorld(published, served *hx.Driver, ds [][]byte) (*world, error) {
	w := &world{d: served, digest: ds, nt: &notifier{}, st: &store{snaps: map[uint64]*protocol.SignedSnapshot{}}}
	for _, s := range published.Snaps {
		ss := signed(s)
		w.pub = append(w.pub, ss)
		w.st.snaps[s.Version] = ss
	}
	w.tr = &transport{mux: apihttp.NewApiHttp(backend{served})}
	c, err := client.NewHTTPClient(
		client.SetHttpClient(&http.Client{Transport: w.tr}),
		client.SetURLs("http://qed.test:8800"),
		client.SetReadPreference(client.Any),
		client.SetMaxRetries(0),
		client.SetAttemptToReviveEndpoints(true), // as cmd's newAuditorConfig / newMonitorConfig do
		client.SetTopologyDiscovery(false),
		client.SetHealthChecks(false),
		client.SetHasherFunction(hashing.NewSha256Hasher),
	)
	if err != nil {
		return nil, err
	}
	conf := gossip.DefaultConfig()
	conf.NodeName = "verif-agent"
	conf.Role = "auditor"
	conf.BindAddr = "127.0.0.1:12399"
	a, err := gossip.NewDefaultAgent(conf, c, w.st, tasks{}, w.nt, nil)
	if err != nil {
		return nil, err
	}
	w.agent = a
	return w, nil
}

func cloneBatch(ss []*protocol.SignedSnapshot) *protocol.BatchSnapshots {
	b := &protocol.BatchSnapshots{}
	for _, s := range ss {
		ps := *s.Snapshot
		ps.EventDigest = append(hashing.Digest{}, ps.EventDigest...)
		ps.HistoryDigest = append(hashing.Digest{}, ps.HistoryDigest...)
		ps.HyperDigest = append(hashing.Digest{}, ps.HyperDigest...)
		b.Snapshots = append(b.Snapshots, &protocol.SignedSnapshot{Snapshot: &ps, Signature: append([]byte{}, s.Signature...)})
	}
	return b
}

// run executes one task of factory f for batch b; returns the alerts raised and the task's error.
func (w *world) run(f gossip.TaskFactory, b *protocol.BatchSnapshots) (alerts int, err error, panicked string) {
	w.nt.alerts = nil
	w.tr.lastMem, w.tr.lastInc, w.tr.status = nil, nil, 0
	ctx := context.WithValue(context.WithValue(context.Background(), "agent", w.agent), "batch", b)
	pn, msg := ev.Catch(func() { err = f.New(ctx)() })
	if pn {
		panicked = msg
	}
	return len(w.nt.alerts), err, panicked
}

// ---------------------------------------------------------------- reference verdicts

func refHPath(m map[string]hashing.Digest) (ref.HPath, bool) {
	hp := ref.HPath{}
	for k, v := range m {
		var i uint64
		var h uint16
		if n, _ := fmt.Sscanf(k, "%d|%d", &i, &h); n != 2 || k != fmt.Sprintf("%d|%d", i, h) {
			return nil, false
		}
		hp[ref.HPos{Index: i, Height: h}] = v
	}
	return hp, true
}

// the auditor's check as the specification states it: the membership answer the server gave for
// (gossiped event digest, gossiped version) must be an existence proof that binds the digest to a
// version <= the gossiped one under the stored hyper digest of the answer's current version and the
// gossiped history digest.
func refAuditor(mr *protocol.MembershipResult, gossiped *protocol.Snapshot, stored *protocol.SignedSnapshot) bool {
	if mr == nil || stored == nil || !mr.Exists || mr.ActualVersion > mr.QueryVersion {
		return false
	}
	if !bytes.Equal(mr.KeyDigest, gossiped.EventDigest) { // the decoded proof carries its own key: hyper proof checks it
		return false
	}
	hp, ok := refHPath(mr.History)
	if !ok {
		return false
	}
	yp := ref.HyperPath{}
	for k, v := range mr.Hyper {
		yp[k] = v
	}
	return ref.VerifyHyper(yp, gossiped.EventDigest, mr.ActualVersion, stored.Snapshot.HyperDigest) &&
		ref.VerifyMembership(hp, mr.ActualVersion, mr.QueryVersion, gossiped.EventDigest, gossiped.HistoryDigest)
}

func refMonitor(ir *protocol.IncrementalResponse, first, last *protocol.Snapshot) bool {
	if ir == nil {
		return false
	}
	hp, ok := refHPath(ir.AuditPath)
	if !ok {
		return false
	}
	return ref.VerifyIncremental(hp, ir.Start, ir.End, first.HistoryDigest, last.HistoryDigest)
}

// ---------------------------------------------------------------- cases

type tcase struct {
	Names  []string `json:"events"`
	Comp   []int    `json:"composition"`
	I      int      `json:"batchFirst"`
	J      int      `json:"batchLast"`
	Agent  string   `json:"agent"`
	Tamper string   `json:"tamper"`
	Edit   *edit    `json:"edit,omitempty"`
	Fork   int      `json:"forkAt,omitempty"`
}

// gossip-side tamperings of a batch (applied to a deep copy)
type gossipTamper struct {
	name  string
	apply func(b *protocol.BatchSnapshots)
}

func gossipTampers() []gossipTamper {
	var out []gossipTamper
	for _, which := range []string{"first", "last"} {
		pick := func(b *protocol.BatchSnapshots) *protocol.Snapshot {
			if which == "first" {
				return b.Snapshots[0].Snapshot
			}
			return b.Snapshots[len(b.Snapshots)-1].Snapshot
		}
		w := which
		out = append(out,
			gossipTamper{w + ".EventDigest flipped", func(b *protocol.BatchSnapshots) { s := pick(b); s.EventDigest = flipped(s.EventDigest) }},
			gossipTamper{w + ".HistoryDigest flipped", func(b *protocol.BatchSnapshots) { s := pick(b); s.HistoryDigest = flipped(s.HistoryDigest) }},
			gossipTamper{w + ".HyperDigest flipped", func(b *protocol.BatchSnapshots) { s := pick(b); s.HyperDigest = flipped(s.HyperDigest) }},
			gossipTamper{w + ".Version+1", func(b *protocol.BatchSnapshots) { pick(b).Version++ }},
			gossipTamper{w + ".Version-1", func(b *protocol.BatchSnapshots) { pick(b).Version-- }},
		)
	}
	return out
}

func memEdits(n int) []*edit {
	out := []*edit{{Kind: "scalar", Field: "Exists"}, {Kind: "scalar", Field: "KeyDigest"}}
	for _, f := range []string{"ActualVersion", "QueryVersion", "CurrentVersion"} {
		out = append(out, &edit{Kind: "scalar", Field: f, Delta: 1}, &edit{Kind: "scalar", Field: f, Delta: -1})
	}
	for i := 0; i < n; i++ {
		out = append(out, &edit{Kind: "flipHyper", Entry: i}, &edit{Kind: "dropHyper", Entry: i}, &edit{Kind: "flipHistory", Entry: i}, &edit{Kind: "dropHistory", Entry: i})
	}
	return out
}

func incEdits(n int) []*edit {
	out := []*edit{{Kind: "scalar", Field: "Start", Delta: 1}, {Kind: "scalar", Field: "Start", Delta: -1}, {Kind: "scalar", Field: "End", Delta: 1}, {Kind: "scalar", Field: "End", Delta: -1}}
	for i := 0; i < n; i++ {
		out = append(out, &edit{Kind: "flipInc", Entry: i}, &edit{Kind: "dropInc", Entry: i})
	}
	return out
}

// evaluate one (world, batch, agent) execution against the specification.
func (w *world) evaluate(r *ev.Run, c tcase, b *protocol.BatchSnapshots, honest bool) {
	r.Eval(1)
	var f gossip.TaskFactory
	if c.Agent == "auditor" {
		f = cmd.VerifAuditorFactory()
	} else {
		f = cmd.VerifMonitorFactory()
	}
	alerts, err, pn := w.run(f, b)
	if pn != "" {
		r.Violation("the "+c.Agent+" task panics: "+firstLine(pn), c)
		return
	}
	if honest {
		if alerts != 0 || err != nil {
			r.Violation(fmt.Sprintf("the %s raises an alert or fails on an honest log", c.Agent), map[string]interface{}{"case": c, "alerts": w.nt.alerts, "error": fmt.Sprint(err)})
		}
		r.Outcome(c.Agent + " honest ok")
		return
	}
	first, last := b.Snapshots[0].Snapshot, b.Snapshots[len(b.Snapshots)-1].Snapshot
	var got, fetched, accept bool
	got = alerts > 0
	switch c.Agent {
	case "auditor":
		fetched = w.tr.lastMem != nil
		if fetched {
			stored, _ := w.st.GetSnapshot(w.tr.lastMem.CurrentVersion)
			if stored == nil {
				// the answer names a current version nobody published: the auditor cannot check it and
				// gives up without a verdict; neither demanded nor forbidden by the statement
				r.Outcome("auditor: no stored snapshot for the answer's current version")
				return
			}
			accept = refAuditor(w.tr.lastMem, first, stored)
		}
	case "monitor":
		fetched = w.tr.lastInc != nil
		if fetched {
			accept = refMonitor(w.tr.lastInc, first, last)
		}
	}
	if !fetched && w.tr.status == 0 && w.tr.ed == nil {
		// the agent never asked the log at all. What the log would have answered decides whether that
		// was a verification it owed: the harness asks in its place
		switch c.Agent {
		case "monitor":
			if p, err := w.d.B.QueryConsistency(first.Version, last.Version); err == nil {
				ir := protocol.ToIncrementalResponse(p)
				if !refMonitor(ir, first, last) && !got {
					r.Violation("the monitor raises no alert although the proof does not verify against the published snapshots: it never asked the log ("+tamperClass(c)+")", c)
				}
			}
		case "auditor":
			if p, err := w.d.B.QueryDigestMembershipConsistency(first.EventDigest, first.Version); err == nil {
				mr := protocol.ToMembershipResult(nil, p)
				if stored, _ := w.st.GetSnapshot(mr.CurrentVersion); stored != nil && !refAuditor(mr, first, stored) && !got {
					r.Violation("the auditor raises no alert although the proof does not verify against the published snapshots: it never asked the log ("+tamperClass(c)+")", c)
				}
			}
		}
		r.Outcome(fmt.Sprintf("%s: never asked the log, alert=%v", c.Agent, got))
		return
	}
	if !fetched {
		// the server refused to answer (e.g. a version beyond the log): not a verification verdict
		r.Outcome(fmt.Sprintf("%s: server answered %d, alert=%v", c.Agent, w.tr.status, got))
		return
	}
	if !accept && !got {
		r.Violation("the "+c.Agent+" raises no alert although the proof does not verify against the published snapshots ("+tamperClass(c)+")", c)
	}
	if accept && got {
		r.Violation("the "+c.Agent+" raises an alert although the proof verifies against the published snapshots ("+tamperClass(c)+")", c)
	}
	r.Outcome(fmt.Sprintf("%s %s accept=%v alert=%v", c.Agent, tamperClass(c), accept, got))
	if (c.I+c.J+len(c.Names))%5 == 0 && c.I == 1 {
		r.Sample(map[string]interface{}{"case": c, "referenceAccepts": accept, "alertRaised": got})
	}
	cmu.Lock()
	counters[fmt.Sprintf("%s_tampered_accept=%v_alert=%v", c.Agent, accept, got)]++
	cmu.Unlock()
}

func tamperClass(c tcase) string {
	if c.Edit != nil {
		return "server answer: " + c.Edit.Kind + " " + c.Edit.Field
	}
	if c.Fork > 0 || strings.HasPrefix(c.Tamper, "fork") {
		return "forked log"
	}
	return c.Tamper
}

func firstLine(s string) string {
	if i := strings.IndexByte(s, '\n'); i >= 0 {
		s = s[:i]
	}
	if len(s) > 140 {
		s = s[:140]
	}
	return s
}

func logs(thorough bool) (out []struct {
	names []string
	comp  []int
}) {
	base := []string{"X", "Y255", "Sa", "Y24", "Z", "Y128", "T"}
	maxN := 5
	if thorough {
		maxN = 7
	}
	for n := 1; n <= maxN; n++ {
		for _, comp := range hx.Compositions(n) {
			if !thorough && n > 3 && !(len(comp) == n || len(comp) == 1 || (len(comp) == 2 && comp[0] == 1)) {
				continue
			}
			out = append(out, struct {
				names []string
				comp  []int
			}{base[:n], comp})
		}
	}
	return
}

func TestC19(t *testing.T) {
	r := ev.Begin("C19")
	r.Rule("the real auditor / monitor / publisher task bodies on a real gossip.Agent whose Qed client is the real client.HTTPClient wired to the real apihttp mux over a real balloon; logs of 1..5 (7 thorough) distinct crafted events in all (quick: selected) compositions; EVERY contiguous batch [i..j] of the signed snapshots; honest: zero alerts and no error; tampering alphabet: gossiped first/last snapshot (each digest flipped, version +-1), stored snapshot (hyper digest flipped, removed), server answer (Exists, KeyDigest, Actual/Query/CurrentVersion +-1, Start/End +-1, every audit-path entry flipped or dropped), server forked at every point f (serves a log that differs from the published one from event f on); oracle: alert <=> an independent reference verifier rejects the answer the server actually gave against the published snapshots; publisher: every multiset of deliveries (multiplicity <= 2, 3 thorough) of every set of overlapping batches in every order: the signed snapshots forwarded to the store = the distinct ones seen, each exactly once; distinct = (log, batch, agent, tampering) cases")
	r.Assume("tasks are run synchronously (the task manager's scheduling is not the subject)", "an answer the agent cannot obtain (server error, no stored snapshot for the named version) is recorded as an outcome, not judged: the statement speaks about proofs that fail to verify", "ed25519 and encoding/json trusted")
	var cases int
	for _, lg := range logs(r.Thorough()) {
		if r.OutOfTime() {
			r.Capped("time budget")
			break
		}
		li := cases
		cases++
		d, ds, err := buildLog(lg.names, lg.comp)
		if err != nil {
			t.Fatal(err)
		}
		n := len(ds)
		w, err := newWorld(d, d, ds)
		if err != nil {
			t.Fatal(err)
		}
		for i := 0; i < n; i++ {
			if !r.Mine(li*7 + i) { // work is sharded on (log, first snapshot of the batch)
				continue
			}
			for j := i; j < n; j++ {
				for _, ag := range []string{"auditor", "monitor"} {
					c := tcase{Names: lg.names, Comp: lg.comp, I: i, J: j, Agent: ag, Tamper: "none"}
					// honest
					w.tr.ed = nil
					w.evaluate(r, c, cloneBatch(w.pub[i:j+1]), true)
					r.Distinct(fmt.Sprint(c))
					// gossiped snapshot altered
					for _, gt := range gossipTampers() {
						b := cloneBatch(w.pub[i : j+1])
						gt.apply(b)
						c2 := c
						c2.Tamper = "gossiped " + gt.name
						w.evaluate(r, c2, b, false)
						r.Distinct(fmt.Sprint(c2))
					}
					// server answer altered
					eds := memEdits(12)
					if ag == "monitor" {
						eds = incEdits(8)
					}
					for _, e := range eds {
						w.tr.ed = e
						c2 := c
						c2.Tamper, c2.Edit = "server answer", e
						w.evaluate(r, c2, cloneBatch(w.pub[i:j+1]), false)
						r.Distinct(fmt.Sprint(c2, *e))
					}
					w.tr.ed = nil
				}
				// stored snapshot altered (auditor only: the monitor does not use the store)
				c := tcase{Names: lg.names, Comp: lg.comp, I: i, J: j, Agent: "auditor", Tamper: "stored current snapshot: HyperDigest flipped"}
				cur := uint64(n - 1)
				orig := w.st.snaps[cur]
				ps := *orig.Snapshot
				ps.HyperDigest = flipped(ps.HyperDigest)
				w.st.snaps[cur] = &protocol.SignedSnapshot{Snapshot: &ps, Signature: orig.Signature}
				w.evaluate(r, c, cloneBatch(w.pub[i:j+1]), false)
				w.st.snaps[cur] = orig
				r.Distinct(fmt.Sprint(c))
			}
		}
		// forked server: the published log is d; the server serves a log equal up to f-1 and different from f on
		for f := 0; f < n; f++ {
			if !r.Mine(li*7 + f + 3) {
				continue
			}
			names := append([]string{}, lg.names...)
			alt := []string{"Y27", "Y28", "Y31", "Y32", "Sb", "Y254", "Z255"}
			for k := f; k < n; k++ {
				names[k] = alt[k]
			}
			fd, _, err := buildLog(names, lg.comp)
			if err != nil {
				t.Fatal(err)
			}
			fw, err := newWorld(d, fd, ds)
			if err != nil {
				t.Fatal(err)
			}
			for i := 0; i < n; i++ {
				for j := i; j < n; j++ {
					for _, ag := range []string{"auditor", "monitor"} {
						c := tcase{Names: lg.names, Comp: lg.comp, I: i, J: j, Agent: ag, Tamper: fmt.Sprintf("fork at %d", f), Fork: f}
						fw.evaluate(r, c, cloneBatch(fw.pub[i:j+1]), false)
						r.Distinct(fmt.Sprint(c))
					}
				}
			}
			fd.Close()
		}
		if r.Mine(li) {
			publisher(r, w, lg.names, lg.comp)
			if len(lg.comp) == len(lg.names) {
				publisherConcurrent(r, w)
				if len(lg.names) == 4 {
					throughProcessor(r, w)
				}
			}
		}
		d.Close()
	}
	r.Bound("logs", cases)
	for k, v := range counters {
		r.Extra(k, v)
	}
	r.Finish()
}

// ---------------------------------------------------------------- publisher

type pcase struct {
	Names   []string `json:"events"`
	Batches [][2]int `json:"batches"`
	Deliver []int    `json:"deliveryOrder"`
}

func publisher(r *ev.Run, w *world, names []string, comp []int) {
	n := len(w.pub)
	if n < 2 || n > 4 || (!r.Thorough() && n > 3) {
		return
	}
	// batch sets: every pair of contiguous ranges (overlapping or not)
	var ranges [][2]int
	for i := 0; i < n; i++ {
		for j := i; j < n; j++ {
			ranges = append(ranges, [2]int{i, j})
		}
	}
	maxMult := 2
	if r.Thorough() {
		maxMult = 3
	}
	for a := 0; a < len(ranges); a++ {
		for b := a; b < len(ranges); b++ {
			set := [][2]int{ranges[a], ranges[b]}
			// every delivery sequence over the two batches with multiplicity <= maxMult each
			var seqs [][]int
			var gen func(cur []int, ca, cb int)
			gen = func(cur []int, ca, cb int) {
				if len(cur) > 0 && (ca > 0 || a == b) && (cb > 0 || a == b) {
					seqs = append(seqs, append([]int{}, cur...))
				}
				if ca < maxMult {
					gen(append(cur, 0), ca+1, cb)
				}
				if a != b && cb < maxMult {
					gen(append(cur, 1), ca, cb+1)
				}
			}
			gen(nil, 0, 0)
			for _, seq := range seqs {
				r.Eval(1)
				c := pcase{names, set, seq}
				// fresh agent cache per case
				pw, err := newWorld(w.d, w.d, w.digest)
				if err != nil {
					panic(err)
				}
				seen := map[string]bool{}
				for _, which := range seq {
					rg := set[which]
					bt := cloneBatch(pw.pub[rg[0] : rg[1]+1])
					for _, s := range bt.Snapshots {
						seen[string(s.Signature)] = true
					}
					_, _, pn := pw.run(cmd.VerifPublisherFactory(), bt)
					if pn != "" {
						r.Violation("the publisher task panics: "+firstLine(pn), c)
					}
				}
				count := map[string]int{}
				for _, bt := range pw.st.batches {
					if len(bt.Snapshots) == 0 {
						r.Violation("the publisher forwards an empty batch to the snapshot store", c)
					}
					for _, s := range bt.Snapshots {
						count[string(s.Signature)]++
					}
				}
				for sig := range seen {
					if count[sig] == 0 {
						r.Violation("the publisher never forwards a signed snapshot it received", c)
					} else if count[sig] > 1 {
						r.Violation("the publisher forwards the same signed snapshot more than once", c)
					}
				}
				for sig := range count {
					if !seen[sig] {
						r.Violation("the publisher forwards a snapshot it never received", c)
					}
				}
				r.Outcome(fmt.Sprintf("publisher: %d deliveries, %d forwards", len(seq), len(pw.st.batches)))
				r.Distinct(fmt.Sprint("pub", c))
			}
		}
	}
}

// ---------------------------------------------------------------- through the real batch processor
//
// In a running agent the task factories sit behind gossip.BatchProcessor, which drops batches it has
// already processed. An honest batch and an altered copy of it (same signatures, another history digest)
// are delivered to the agent's real In bus in both orders; the real processor loop, the real buses and
// the real auditor and monitor tasks run under the controlled scheduler. The altered copy must raise an
// alert whichever arrives first.

func throughProcessor(r *ev.Run, w *world) {
	n := len(w.pub)
	if n < 3 {
		return
	}
	for _, order := range []string{"honest first", "altered first"} {
		order := order
		body := func(x *sx.Exec) {
			var pw *world
			var bp *gossip.BatchProcessor
			sx.Setup(func() {
				var err error
				pw, err = newWorld(w.d, w.d, w.digest)
				if err != nil {
					panic(err)
				}
				bp = gossip.NewBatchProcessor(pw.agent, []gossip.TaskFactory{cmd.VerifAuditorFactory(), cmd.VerifMonitorFactory()}, nil)
			})
			pw.agent.In.Subscribe(gossip.BatchMessageType, bp, 255)
			honest := cloneBatch(pw.pub[0:3])
			altered := cloneBatch(pw.pub[0:3])
			altered.Snapshots[0].Snapshot.HistoryDigest = flipped(altered.Snapshots[0].Snapshot.HistoryDigest)
			seq := []*protocol.BatchSnapshots{honest, altered}
			if order == "altered first" {
				seq = []*protocol.BatchSnapshots{altered, honest}
			}
			for _, b := range seq {
				payload, _ := b.Encode()
				m := &gossip.Message{Kind: gossip.BatchMessageType, TTL: 0, Payload: payload}
				wire, _ := m.Encode()
				pw.agent.VerifNotifyMsg(wire)
				sx.AwaitQuiescence("batch processed")
			}
			bp.Stop()
			x.Observe(fmt.Sprintf("%s: %d alerts", order, len(pw.nt.alerts)))
			if len(pw.nt.alerts) == 0 {
				x.Fail("an altered copy of a batch (same signatures, another history digest) raises no alert when it reaches an agent through its batch processor ("+order+")", order)
			}
		}
		e := &sx.Explorer{MaxBound: 1, DelayBounding: true, MaxSteps: 3000, Body: body}
		e.OnFailure = func(x *sx.Exec, f sx.Failure, schedule []int) {
			r.Violation(f.Sig, map[string]interface{}{"schedule": append([]int{}, schedule...)})
		}
		e.Run()
		if okr, badr := e.ValidateReplays(); badr > 0 {
			r.Violation("HARNESS: NONDETERMINISM: an explored schedule does not reproduce when replayed", nil)
		} else {
			r.Validated(okr)
		}
		r.Eval(e.Execs)
		r.States(e.Execs)
		r.Transitions(e.PointsTotal)
		r.Distinct("through the processor: " + order)
		for k := range e.Outcomes {
			r.Outcome("through the processor " + k)
		}
		fmt.Printf("[c19] through the processor (%s): execs=%d points=%d outcomes=%d failures=%v\n", order, e.Execs, e.PointsTotal, len(e.Outcomes), e.Failures)
	}
}

// ---------------------------------------------------------------- publisher tasks running concurrently
//
// The task manager runs every task in a goroutine of its own, so the publisher tasks of two
// overlapping batches can interleave. Both tasks run as threads of the controlled scheduler; every
// call of the agent's cache (Get, Set) and of the snapshot store (PutBatch) is a scheduling point.

type ycache struct{ c gossip.Cache }

func (y ycache) Get(k []byte) ([]byte, error) {
	sx.Yield("cache.Get")
	return y.c.Get(k)
}
func (y ycache) Set(k, v []byte, e int) error {
	sx.Yield("cache.Set")
	return y.c.Set(k, v, e)
}

type ystore struct{ *store }

func (y ystore) PutBatch(b *protocol.BatchSnapshots) error {
	sx.Yield("store.PutBatch")
	return y.store.PutBatch(b)
}

type cscenario struct {
	Ranges [][2]int `json:"batches"`
}

func publisherConcurrent(r *ev.Run, w *world) {
	n := len(w.pub)
	if n != 4 {
		return
	}
	for _, sc := range []cscenario{{[][2]int{{0, 2}, {1, 3}}}, {[][2]int{{0, 1}, {1, 1}}}, {[][2]int{{0, 3}, {0, 3}}}, {[][2]int{{0, 1}, {2, 3}}}} {
		sc := sc
		body := func(x *sx.Exec) {
			var pw *world
			sx.Setup(func() {
				var err error
				pw, err = newWorld(w.d, w.d, w.digest)
				if err != nil {
					panic(err)
				}
				pw.agent.Cache = ycache{pw.agent.Cache}
				pw.agent.SnapshotStore = ystore{pw.st}
			})
			var wg sx.WaitGroup
			seen := map[string]bool{}
			for i, rg := range sc.Ranges {
				bt := cloneBatch(pw.pub[rg[0] : rg[1]+1])
				for _, s := range bt.Snapshots {
					seen[string(s.Signature)] = true
				}
				wg.Add(1)
				sx.GoNamed(fmt.Sprintf("publisher-task%d", i), false, func() {
					defer wg.Done()
					ctx := context.WithValue(context.WithValue(context.Background(), "agent", pw.agent), "batch", bt)
					cmd.VerifPublisherFactory().New(ctx)()
				})
			}
			wg.Wait()
			count := map[string]int{}
			var shape []string
			for _, bt := range pw.st.batches {
				shape = append(shape, fmt.Sprint(len(bt.Snapshots)))
				for _, s := range bt.Snapshots {
					count[string(s.Signature)]++
				}
			}
			sort.Strings(shape)
			x.Observe(strings.Join(shape, "+"))
			for sig := range seen {
				if count[sig] == 0 {
					x.Fail("the publisher never forwards a signed snapshot it received (concurrent tasks)", sc)
				} else if count[sig] > 1 {
					x.Fail("the publisher forwards the same signed snapshot more than once (two publisher tasks running concurrently)", sc)
				}
			}
		}
		e := &sx.Explorer{MaxBound: 2, MaxSteps: 2000, Body: body}
		e.OnFailure = func(x *sx.Exec, f sx.Failure, schedule []int) {
			x2, det := e.Replay(schedule)
			if !det {
				r.Violation("HARNESS: NONDETERMINISM replaying a failing schedule", map[string]interface{}{"scenario": sc, "schedule": schedule})
				return
			}
			r.Violation(f.Sig, map[string]interface{}{"scenario": sc, "schedule": append([]int{}, schedule...), "trace": x2.Trace})
		}
		e.Run()
		if okr, badr := e.ValidateReplays(); badr > 0 {
			r.Violation("HARNESS: NONDETERMINISM: an explored schedule does not reproduce when replayed", nil)
		} else {
			r.Validated(okr)
		}
		r.Eval(e.Execs)
		r.States(e.Execs)
		r.Transitions(e.PointsTotal)
		r.Distinct(fmt.Sprint("publisher concurrent ", sc))
		for k := range e.Outcomes {
			r.Outcome("publisher concurrent " + k)
		}
		fmt.Printf("[c19] publisher tasks %v: execs=%d points=%d bound=%d outcomes=%d failures=%v\n", sc.Ranges, e.Execs, e.PointsTotal, e.BoundCompleted, len(e.Outcomes), e.Failures)
	}
}

var _ = os.Getenv
