//go:build go1.18

package sx

import (
	"fmt"
	"strings"
	"time"
)

// Explorer: stateless depth-first search over choice sequences with iterative deviation bounding.
// A deviation is a preemption (switching away from a thread that could have continued) or a timer
// fired while something else could run. Bounds 0..MaxBound are completed in turn; executions always
// run to completion.
type Explorer struct {
	MaxBound int
	// DelayBounding: every departure from the default deterministic scheduler (running thread first,
	// then lowest id) costs one deviation, also when the running thread is blocked or finished
	// (delay-bounded scheduling, Emmi/Qadeer/Rakamaric POPL 2011). Without it only preemptions of a
	// runnable thread and early timer firings are counted (CHESS-style preemption bounding), and the
	// choice of the next thread after a block is free.
	DelayBounding bool
	MaxSteps      int
	MaxExecs      int           // cap per bound (0 = none)
	Deadline      time.Time     // internal deadline (zero = none)
	Body          func(x *Exec) // thread 0
	Check         func(x *Exec) // evaluated after every complete execution (may call x.Fail)
	OnFailure     func(x *Exec, f Failure, schedule []int)
	OnDeadlock    func(x *Exec) string // names the violation a deadlock stands for in this harness

	Execs          int
	PointsTotal    int
	BoundCompleted int // highest bound fully explored (-1 = none)
	Capped         string
	Outcomes       map[string]int
	Failures       map[string]int
	FirstSchedule  map[string][]int
	seenAtBound    int
	stop           bool
	kept           [][]int // a few complete schedules, kept for the determinism check
}

func (e *Explorer) cost(x *Exec, upto int) int {
	c := 0
	for i := 0; i < upto && i < len(x.Points); i++ {
		if e.DelayBounding {
			if len(x.Points[i].Enabled) > 1 && x.Points[i].Chosen != 0 {
				c++
			}
			continue
		}
		c += deviation(x.Points[i], x.Points[i].Chosen)
	}
	return c
}

func (e *Explorer) altCost(p Point, alt int) int {
	if e.DelayBounding {
		if alt != 0 {
			return 1
		}
		return 0
	}
	return altCost(p, alt)
}

// deviation cost of taking alternative alt at point p
func deviation(p Point, alt int) int {
	if len(p.Enabled) <= 1 {
		return 0
	}
	if p.TimerFire && alt == p.Chosen {
		return 1
	}
	if p.RunningEnabled && alt != 0 {
		return 1
	}
	return 0
}

// altCost: cost of alternative alt at point p (timer alternatives are the trailing candidates; we
// cannot tell from the Point alone which trailing ones are timers except for the chosen one, so a
// non-default alternative at a point where the running thread was enabled costs 1, and any
// alternative at a point where it was not costs 0 unless it is a timer - handled by re-running).
func altCost(p Point, alt int) int {
	if p.RunningEnabled && alt != 0 {
		return 1
	}
	return 0
}

func (e *Explorer) runOne(prefix []int, trace bool) *Exec {
	x := RunOne(prefix, Options{MaxSteps: e.MaxSteps, KeepTrace: trace}, e.Body)
	if e.Execs < 2 || (e.Execs%997 == 0 && len(e.kept) < 6) {
		e.kept = append(e.kept, append([]int{}, x.Choices...))
	}
	e.Execs++
	e.PointsTotal += len(x.Points)
	return x
}

func (e *Explorer) judge(x *Exec) {
	if x.Diverged != "" {
		x.Fail("HARNESS: schedule replay diverged: "+x.Diverged, nil)
	}
	if x.Deadlock && len(x.Panics) == 0 {
		sig := "deadlock: " + x.DeadlockInfo
		if e.OnDeadlock != nil {
			sig = e.OnDeadlock(x)
		}
		x.Fail(sig, x.DeadlockInfo)
	}
	if x.Livelock {
		x.Fail("livelock: the execution exceeds the step horizon", nil)
	}
	for _, p := range x.Panics {
		x.Fail("panic in "+normalize(p), p)
	}
	if e.Check != nil && x.Diverged == "" {
		e.Check(x)
	}
	key := strings.Join(x.Observed, " | ")
	e.Outcomes[key]++
	for _, f := range x.Fails {
		e.Failures[f.Sig]++
		if _, ok := e.FirstSchedule[f.Sig]; !ok {
			e.FirstSchedule[f.Sig] = append([]int{}, x.Choices...)
			if e.OnFailure != nil {
				e.OnFailure(x, f, x.Choices)
			}
		}
	}
}

func normalize(s string) string {
	var b strings.Builder
	prev := false
	for _, ch := range s {
		if ch >= '0' && ch <= '9' {
			if !prev {
				b.WriteByte('#')
			}
			prev = true
		} else {
			b.WriteRune(ch)
			prev = false
		}
	}
	r := b.String()
	if len(r) > 160 {
		r = r[:160]
	}
	return r
}

func (e *Explorer) explore(prefix []int, bound int, used int) {
	if e.stop {
		return
	}
	if !e.Deadline.IsZero() && time.Now().After(e.Deadline) {
		e.Capped = "internal deadline reached"
		e.stop = true
		return
	}
	if e.MaxExecs > 0 && e.seenAtBound >= e.MaxExecs {
		e.Capped = fmt.Sprintf("execution cap %d reached", e.MaxExecs)
		e.stop = true
		return
	}
	x := e.runOne(prefix, false)
	e.seenAtBound++
	// the cost actually incurred by this execution (timer alternatives are only known after running)
	total := e.cost(x, len(x.Points))
	if total > bound {
		return // an alternative turned out to be a timer deviation beyond the bound
	}
	// iterative bounding: an execution with cost < bound was already judged in an earlier iteration
	if total == bound || bound == 0 {
		e.judge(x)
	}
	for i := len(prefix); i < len(x.Points); i++ {
		p := x.Points[i]
		if len(p.Enabled) <= 1 {
			continue
		}
		before := e.cost(x, i)
		for alt := 0; alt < len(p.Enabled); alt++ {
			if alt == p.Chosen {
				continue
			}
			if before+e.altCost(p, alt) > bound {
				continue
			}
			np := append(append([]int{}, x.Choices[:i]...), alt)
			e.explore(np, bound, before+e.altCost(p, alt))
			if e.stop {
				return
			}
		}
	}
}

// Run explores bounds 0..MaxBound in turn.
func (e *Explorer) Run() {
	e.Outcomes, e.Failures, e.FirstSchedule = map[string]int{}, map[string]int{}, map[string][]int{}
	e.BoundCompleted = -1
	for b := 0; b <= e.MaxBound; b++ {
		e.seenAtBound = 0
		e.explore(nil, b, 0)
		if e.stop {
			return
		}
		e.BoundCompleted = b
	}
}

// Replay runs one schedule twice and reports whether both runs observed the same thing.
func (e *Explorer) Replay(schedule []int) (x *Exec, deterministic bool) {
	a := RunOne(schedule, Options{MaxSteps: e.MaxSteps, KeepTrace: true}, e.Body)
	b := RunOne(schedule, Options{MaxSteps: e.MaxSteps, KeepTrace: true}, e.Body)
	if e.Check != nil {
		e.Check(a)
		e.Check(b)
	}
	same := strings.Join(a.Observed, "|") == strings.Join(b.Observed, "|") && strings.Join(a.Trace, "|") == strings.Join(b.Trace, "|") && len(a.Fails) == len(b.Fails) && a.Diverged == "" && b.Diverged == ""
	return a, same
}

// ValidateReplays re-runs a few of the explored schedules twice each and reports how many reproduced
// exactly (same trace, same observations) and how many did not. A schedule that does not reproduce
// means nondeterminism the scheduler does not own: nothing the exploration said can be trusted.
func (e *Explorer) ValidateReplays() (ok, bad int) {
	for _, sch := range e.kept {
		if _, det := e.Replay(sch); det {
			ok++
		} else {
			bad++
		}
	}
	return
}
