//go:build go1.18

// Package sx: a cooperative, fully controlled scheduler for real Go code plus a stateless
// depth-first explorer with iterative preemption bounding (DESIGN §3.C).
//
// The code under test is built with its `sync` import redirected to this package (same type
// names: Mutex, RWMutex, WaitGroup, Once), its `go` statements turned into sx.Go, its channel
// operations preceded by sx.WaitSend / sx.WaitRecv and its select statements turned into
// sx.Select - all by tools/instrument, at check time, on a scratch copy. Exactly one controlled
// thread runs at any time; every acquire-like operation (Lock, RLock, Wait, channel operation,
// select, spawn, explicit Yield seam) is a scheduling point at which the explorer picks the next
// thread. Release-like operations (Unlock, Done) are left movers and are not scheduling points.
//
// Code that runs outside an exploration (harness set-up, third-party code) sees plain,
// single-threaded behaviour of the shims.
package sx

import (
	"fmt"
	"os"
	"reflect"
	"runtime/debug"
	"sort"
	"strings"
	"sync/atomic"
	"time"
)

// ---------------------------------------------------------------- execution state

type thread struct {
	id      int
	name    string
	wake    chan bool // true = run, false = abort
	done    bool
	pending *op
	daemon  bool
	fired   int // virtual-time firings of this thread's timers (round-robin at quiescence)
}

type op struct {
	desc    string
	enabled func() bool
	timer   bool // a select that has a timer case: may also be released by (virtual) time
	timed   bool // set by the scheduler when the thread was released by its timer
}

// Point is one scheduling decision of an execution.
type Point struct {
	Enabled        []int  // thread ids in canonical order (running thread first if enabled)
	RunningEnabled bool   // the thread that reached the point could have continued
	Chosen         int    // index into Enabled
	Desc           string // pending operation of the chosen thread
	TimerFire      bool   // the chosen thread was released by its timer (environment deviation)
}

type abortPanic struct{}

// Exec is one controlled execution.
type Exec struct {
	prefix       []int
	Points       []Point
	Choices      []int
	threads      []*thread
	cur          *thread
	steps        int
	maxSteps     int
	Deadlock     bool
	DeadlockInfo string
	Livelock     bool
	Diverged     string
	Panics       []string // panics that escaped a controlled thread: "thread: message"
	aborting     bool
	progress     bool // a non-timer operation ran since the last quiescent round
	idleRounds   int
	Trace        []string
	keepTrace    bool
	closed       map[uintptr]bool
	mainDone     chan struct{}
	live         int32
	Fails        []Failure
	Observed     []string // harness-recorded observations (outcome vector)
}

type Failure struct {
	Sig    string
	Detail interface{}
}

var cur *Exec

// Active reports whether a controlled execution is in progress on this goroutine's process.
func Active() bool { return cur != nil && cur.cur != nil }

func (x *Exec) Fail(sig string, detail interface{}) { x.Fails = append(x.Fails, Failure{sig, detail}) }
func (x *Exec) Observe(s string)                    { x.Observed = append(x.Observed, s) }

// ---------------------------------------------------------------- the scheduler core

func (x *Exec) enabledThreads(t *thread) (ids []int, runningEnabled bool) {
	if t != nil && !t.done && t.pending != nil && t.pending.enabled() {
		ids = append(ids, t.id)
		runningEnabled = true
	}
	for _, u := range x.threads {
		if u == t || u.done || u.pending == nil {
			continue
		}
		if u.pending.enabled() {
			ids = append(ids, u.id)
		}
	}
	return
}

// timerThreads: threads blocked in a select with a timer case that is not otherwise enabled
func (x *Exec) timerThreads(t *thread) (ids []int) {
	for _, u := range x.threads {
		if u.done || u.pending == nil || !u.pending.timer {
			continue
		}
		if !u.pending.enabled() {
			ids = append(ids, u.id)
		}
	}
	_ = t
	return
}

// point is called by the running thread with the operation it is about to perform.
func (x *Exec) point(o *op) {
	t := x.cur
	if t == nil {
		return
	}
	if x.aborting {
		panic(abortPanic{})
	}
	x.steps++
	if x.steps > x.maxSteps {
		x.Livelock = true
		x.abort()
		panic(abortPanic{})
	}
	t.pending = o
	x.dispatch(t)
	// back in control of this thread: perform the operation
	t.pending = nil
	if !o.timer || !o.timed {
		x.progress = true
	}
}

// dispatch picks the next thread to run; returns when t itself is (again) the running thread.
func (x *Exec) dispatch(t *thread) {
	for {
		ids, runningEnabled := x.enabledThreads(t)
		timers := x.timerThreads(t)
		var cand []int
		var isTimer []bool
		for _, id := range ids {
			cand = append(cand, id)
			isTimer = append(isTimer, false)
		}
		if len(ids) == 0 {
			// quiescent: nothing can happen but the passing of time
			alive := false
			for _, u := range x.threads {
				if !u.done && !u.daemon {
					alive = true
				}
			}
			if len(timers) == 0 {
				if !alive || x.onlyDaemonsBlocked() {
					x.finish(t)
					return
				}
				x.markDeadlock()
				x.abort()
				if t != nil && !t.done {
					panic(abortPanic{})
				}
				return
			}
			if !x.progress {
				x.idleRounds++
			} else {
				x.idleRounds = 0
			}
			x.progress = false
			if x.idleRounds > len(timers) {
				// time passes and nothing changes any more: the execution is over
				if !alive || x.onlyDaemonsBlocked() {
					x.finish(t)
					return
				}
				x.markDeadlock()
				x.abort()
				if t != nil && !t.done {
					panic(abortPanic{})
				}
				return
			}
			// time advances: the timer thread that fired least recently fires (deterministic, free of charge)
			sort.Slice(timers, func(a, b int) bool {
				fa, fb := x.threads[timers[a]].fired, x.threads[timers[b]].fired
				if fa != fb {
					return fa < fb
				}
				return timers[a] < timers[b]
			})
			u := x.threads[timers[0]]
			u.fired++
			u.pending.timed = true
			x.Points = append(x.Points, Point{Enabled: []int{u.id}, Chosen: 0, Desc: u.pending.desc + " [time]", TimerFire: true})
			x.Choices = append(x.Choices, 0)
			if u == t {
				return
			}
			x.switchTo(t, u)
			return
		}
		// a timer firing early is an environment deviation offered as an extra alternative
		for _, id := range timers {
			cand = append(cand, id)
			isTimer = append(isTimer, true)
		}
		i := len(x.Choices)
		c := 0
		if i < len(x.prefix) {
			c = x.prefix[i]
			if c >= len(cand) {
				x.Diverged = fmt.Sprintf("choice %d at point %d out of range (%d candidates)", c, i, len(cand))
				x.abort()
				if t != nil && !t.done {
					panic(abortPanic{})
				}
				return
			}
		}
		u := x.threads[cand[c]]
		if isTimer[c] {
			u.pending.timed = true
		}
		x.Points = append(x.Points, Point{Enabled: cand, RunningEnabled: runningEnabled, Chosen: c, Desc: u.pending.desc, TimerFire: isTimer[c]})
		x.Choices = append(x.Choices, c)
		if x.keepTrace {
			x.Trace = append(x.Trace, fmt.Sprintf("%s: %s", u.name, u.pending.desc))
		}
		if u == t {
			return
		}
		x.switchTo(t, u)
		return
	}
}

func (x *Exec) markDeadlock() {
	x.Deadlock = true
	var st []string
	for _, u := range x.threads {
		if !u.done && u.pending != nil {
			st = append(st, u.name+" blocked in "+u.pending.desc)
		}
	}
	x.DeadlockInfo = strings.Join(st, "; ")
}

func (x *Exec) onlyDaemonsBlocked() bool {
	for _, u := range x.threads {
		if !u.done && !u.daemon {
			return false
		}
	}
	return true
}

// switchTo hands control from t (parked, or finished, or nil) to u and, if t is still alive,
// waits until t is scheduled again.
func (x *Exec) switchTo(t, u *thread) {
	x.cur = u
	u.wake <- true
	if t == nil || t.done {
		return
	}
	if ok := <-t.wake; !ok {
		panic(abortPanic{})
	}
	x.cur = t
}

// finish: every non-daemon thread is done; daemons are abandoned (aborted).
func (x *Exec) finish(t *thread) {
	x.abort()
	if t != nil && !t.done {
		panic(abortPanic{})
	}
}

func (x *Exec) abort() {
	if x.aborting {
		return
	}
	x.aborting = true
	for _, u := range x.threads {
		if !u.done && u != x.cur {
			select {
			case u.wake <- false:
			default:
			}
		}
	}
}

func (x *Exec) newThread(name string, daemon bool, f func()) *thread {
	t := &thread{id: len(x.threads), name: name, wake: make(chan bool, 1), daemon: daemon}
	x.threads = append(x.threads, t)
	atomic.AddInt32(&x.live, 1)
	t.pending = &op{desc: "start", enabled: func() bool { return true }}
	go func() {
		if ok := <-t.wake; !ok {
			t.done = true
			x.exited(t)
			return
		}
		x.cur = t
		t.pending = nil
		defer func() {
			r := recover()
			if r != nil {
				if _, isAbort := r.(abortPanic); !isAbort && !x.aborting {
					msg := fmt.Sprint(r)
					if i := strings.IndexByte(msg, '\n'); i >= 0 {
						msg = msg[:i]
					}
					x.Panics = append(x.Panics, t.name+": "+msg)
					if os.Getenv("VERIF_SX_STACK") == "1" {
						fmt.Fprintf(os.Stderr, "panic in %s: %v\n%s\n", t.name, r, debug.Stack())
					}
				}
			}
			t.done = true
			t.pending = nil
			x.exited(t)
		}()
		f()
	}()
	return t
}

// exited: thread t is done; pass control on. The last thread to leave ends the execution.
func (x *Exec) exited(t *thread) {
	if !x.aborting {
		x.dispatch(t)
	}
	if atomic.AddInt32(&x.live, -1) == 0 {
		x.mainDone <- struct{}{}
	}
}

// ---------------------------------------------------------------- public API for harness bodies and shims

// inline: outside an exploration, run spawned functions synchronously (fork-join set-up code)
var inline bool

// Setup runs f outside the scheduler's control with spawned functions executed inline: used by
// harness bodies to build the initial state of an execution without creating scheduling points.
func Setup(f func()) {
	x := cur
	var saved *thread
	if x != nil {
		saved = x.cur
		x.cur = nil
	}
	was := inline
	inline = true
	defer func() {
		inline = was
		if x != nil {
			x.cur = saved
		}
	}()
	f()
}

// Go starts a controlled thread.
func Go(f func()) { GoNamed("", false, f) }

func GoNamed(name string, daemon bool, f func()) {
	x := cur
	if x == nil || x.cur == nil {
		if inline {
			f()
			return
		}
		go f()
		return
	}
	if name == "" {
		name = fmt.Sprintf("T%d", len(x.threads))
	}
	x.newThread(name, daemon, f)
	x.point(&op{desc: "spawn " + name, enabled: func() bool { return true }})
}

// Yield is an explicit scheduling point (a seam: store call, cache call, ...).
func Yield(desc string) {
	if x := cur; x != nil && x.cur != nil {
		x.point(&op{desc: desc, enabled: func() bool { return true }})
	}
}

// Block parks the calling thread until cond holds (cond is evaluated by the scheduler).
func Block(desc string, cond func() bool) {
	if x := cur; x != nil && x.cur != nil {
		x.point(&op{desc: desc, enabled: cond})
	}
}

// AwaitQuiescence parks the calling thread until no other thread can run (every other thread is
// finished or blocked): the deterministic replacement for "sleep a little and look".
func AwaitQuiescence(desc string) {
	x := cur
	if x == nil || x.cur == nil {
		return
	}
	me := x.cur
	x.point(&op{desc: "await quiescence: " + desc, enabled: func() bool {
		for _, u := range x.threads {
			if u == me || u.done || u.pending == nil {
				continue
			}
			if u.pending.enabled() {
				return false
			}
		}
		return true
	}})
}

// ---------------------------------------------------------------- sync shims

type Locker interface {
	Lock()
	Unlock()
}

type Mutex struct {
	locked bool
}

func (m *Mutex) Lock() {
	if x := cur; x != nil && x.cur != nil {
		x.point(&op{desc: "Lock", enabled: func() bool { return !m.locked }})
	}
	if m.locked && !Active() {
		panic("sx: Lock of a locked Mutex outside an exploration")
	}
	m.locked = true
}

func (m *Mutex) Unlock() {
	if !m.locked {
		panic("sync: unlock of unlocked mutex")
	}
	m.locked = false
}

type RWMutex struct {
	writer  bool
	readers int
	waiting int // writers that have called Lock and are waiting: like sync.RWMutex, they hold back new readers
}

func (m *RWMutex) Lock() {
	if x := cur; x != nil && x.cur != nil {
		m.waiting++
		x.point(&op{desc: "Lock", enabled: func() bool { return !m.writer && m.readers == 0 }})
		m.waiting--
	}
	if (m.writer || m.readers != 0) && !Active() {
		panic("sx: Lock of a held RWMutex outside an exploration")
	}
	m.writer = true
}

func (m *RWMutex) Unlock() {
	if !m.writer {
		panic("sync: Unlock of unlocked RWMutex")
	}
	m.writer = false
}

// RLock blocks while a writer holds the lock or is waiting for it (sync.RWMutex: "a blocked Lock call
// excludes new readers from acquiring the lock"), which is what makes recursive read locking deadlock.
func (m *RWMutex) RLock() {
	if x := cur; x != nil && x.cur != nil {
		x.point(&op{desc: "RLock", enabled: func() bool { return !m.writer && m.waiting == 0 }})
	}
	if m.writer && !Active() {
		panic("sx: RLock of a write-locked RWMutex outside an exploration")
	}
	m.readers++
}

func (m *RWMutex) RUnlock() {
	if m.readers <= 0 {
		panic("sync: RUnlock of unlocked RWMutex")
	}
	m.readers--
}

func (m *RWMutex) RLocker() Locker { return (*rlocker)(m) }

type rlocker RWMutex

func (r *rlocker) Lock()   { (*RWMutex)(r).RLock() }
func (r *rlocker) Unlock() { (*RWMutex)(r).RUnlock() }

type WaitGroup struct {
	n int
}

func (w *WaitGroup) Add(d int) {
	w.n += d
	if w.n < 0 {
		panic("sync: negative WaitGroup counter")
	}
}
func (w *WaitGroup) Done() { w.Add(-1) }
func (w *WaitGroup) Wait() {
	if x := cur; x != nil && x.cur != nil {
		x.point(&op{desc: "WaitGroup.Wait", enabled: func() bool { return w.n == 0 }})
		return
	}
	if w.n != 0 {
		panic("sx: WaitGroup.Wait would block outside an exploration")
	}
}

type Once struct {
	done bool
	m    Mutex
}

func (o *Once) Do(f func()) {
	if o.done {
		return
	}
	o.m.Lock()
	defer o.m.Unlock()
	if !o.done {
		defer func() { o.done = true }()
		f()
	}
}

// Map and Pool are not used by the instrumented files; Cond neither.

// ---------------------------------------------------------------- channels

func chanID(ch interface{}) uintptr { return reflect.ValueOf(ch).Pointer() }

func (x *Exec) isClosed(ch interface{}) bool { return x.closed[chanID(ch)] }

// WaitRecv parks the thread until a receive on ch cannot block (a value is buffered or ch is closed).
func WaitRecv[T any](ch <-chan T) {
	if x := cur; x != nil && x.cur != nil {
		if ch == nil {
			x.point(&op{desc: "recv(nil chan)", enabled: func() bool { return false }})
			return
		}
		// an unbuffered channel is supported as a signal only: a receive is released by close
		x.point(&op{desc: "recv", enabled: func() bool { return len(ch) > 0 || x.isClosed(ch) }})
	}
}

// WaitSend parks the thread until a send on ch cannot block.
func WaitSend[T any](ch chan<- T) {
	if x := cur; x != nil && x.cur != nil {
		if ch == nil {
			x.point(&op{desc: "send(nil chan)", enabled: func() bool { return false }})
			return
		}
		if cap(ch) == 0 {
			panic("sx: unbuffered channel send is not supported by the scheduler")
		}
		x.point(&op{desc: "send", enabled: func() bool { return len(ch) < cap(ch) || x.isClosed(ch) }})
	}
}

// Closing records that ch is about to be closed (call immediately before close(ch)).
func Closing[T any](ch chan T) {
	if x := cur; x != nil && x.cur != nil {
		x.closed[chanID(ch)] = true
	}
}

// Case of a select statement.
type Case struct {
	kind  int // 0 recv, 1 send, 2 timer, 3 default
	ready func() bool
}

func R[T any](ch <-chan T) Case {
	return Case{kind: 0, ready: func() bool {
		if ch == nil {
			return false
		}
		x := cur
		return len(ch) > 0 || (x != nil && x.isClosed(ch))
	}}
}
func S[T any](ch chan<- T) Case {
	return Case{kind: 1, ready: func() bool { return ch != nil && len(ch) < cap(ch) }}
}
func T(d time.Duration) Case { return Case{kind: 2, ready: func() bool { return false }} }
func Default() Case          { return Case{kind: 3, ready: func() bool { return true }} }

// Select parks the thread until one of the cases can proceed and returns its index. A timer case
// is chosen when the scheduler lets (virtual) time pass for this thread.
func Select(cases ...Case) int {
	x := cur
	if x == nil || x.cur == nil {
		for i, c := range cases {
			if c.kind != 3 && c.kind != 2 && c.ready() {
				return i
			}
		}
		for i, c := range cases {
			if c.kind == 3 || c.kind == 2 {
				return i
			}
		}
		panic("sx: select would block outside an exploration")
	}
	timerIdx, defIdx := -1, -1
	for i, c := range cases {
		if c.kind == 2 {
			timerIdx = i
		}
		if c.kind == 3 {
			defIdx = i
		}
	}
	anyReady := func() bool {
		for _, c := range cases {
			if (c.kind == 0 || c.kind == 1) && c.ready() {
				return true
			}
		}
		return defIdx >= 0
	}
	o := &op{desc: "select", enabled: anyReady, timer: timerIdx >= 0}
	x.point(o)
	if o.timed {
		return timerIdx
	}
	// Go picks uniformly among the ready cases; the scheduler does not branch on that here: the first
	// ready case in source order is taken (a timer that fires "at the same time" is the deviation above)
	for i, c := range cases {
		if (c.kind == 0 || c.kind == 1) && c.ready() {
			return i
		}
	}
	if defIdx >= 0 {
		return defIdx
	}
	if timerIdx >= 0 {
		return timerIdx
	}
	panic("sx: select released with no ready case")
}

// ---------------------------------------------------------------- running one execution

type Options struct {
	MaxSteps  int
	KeepTrace bool
}

// RunOne runs body as thread 0 ("main") under the scheduler, following prefix and then default choices.
func RunOne(prefix []int, opt Options, body func(x *Exec)) *Exec {
	if cur != nil {
		panic("sx: nested exploration")
	}
	x := &Exec{prefix: prefix, maxSteps: opt.MaxSteps, keepTrace: opt.KeepTrace, closed: map[uintptr]bool{}, mainDone: make(chan struct{}, 1)}
	if x.maxSteps == 0 {
		x.maxSteps = 20000
	}
	cur = x
	defer func() { cur = nil }()
	t := x.newThread("main", false, func() { body(x) })
	x.cur = nil
	t.wake <- true
	// wait until every thread is gone (finished or aborted)
	select {
	case <-x.mainDone:
	case <-time.After(120 * time.Second):
		// a controlled thread blocked outside the scheduler's knowledge: harness fault
		x.Diverged = "execution did not terminate: a thread is blocked outside the scheduler"
	}
	x.cur = nil
	return x
}
