//go:build go1.18

package sx

import (
	"fmt"
	"testing"
)

// lost update: two threads do read-modify-write in two separate critical sections
func TestLostUpdate(t *testing.T) {
	e := &Explorer{MaxBound: 2, Body: func(x *Exec) {
		var mu Mutex
		var wg WaitGroup
		v := 0
		for i := 0; i < 2; i++ {
			wg.Add(1)
			Go(func() {
				defer wg.Done()
				mu.Lock()
				r := v
				mu.Unlock()
				mu.Lock()
				v = r + 1
				mu.Unlock()
			})
		}
		wg.Wait()
		x.Observe(fmt.Sprint("v=", v))
		if v != 2 {
			x.Fail("lost update", v)
		}
	}}
	e.Run()
	t.Logf("execs=%d points=%d bound=%d outcomes=%v failures=%v", e.Execs, e.PointsTotal, e.BoundCompleted, e.Outcomes, e.Failures)
	if e.Failures["lost update"] == 0 {
		t.Fatal("lost update not found")
	}
	if len(e.Outcomes) != 2 {
		t.Fatal("expected two outcomes")
	}
	// replay determinism
	x, det := e.Replay(e.FirstSchedule["lost update"])
	if !det || len(x.Fails) == 0 {
		t.Fatalf("replay: deterministic=%v fails=%v", det, x.Fails)
	}
}

func TestNoFalseAlarm(t *testing.T) {
	e := &Explorer{MaxBound: 3, Body: func(x *Exec) {
		var mu Mutex
		var wg WaitGroup
		v := 0
		for i := 0; i < 3; i++ {
			wg.Add(1)
			Go(func() {
				defer wg.Done()
				mu.Lock()
				v++
				mu.Unlock()
			})
		}
		wg.Wait()
		if v != 3 {
			x.Fail("lost update", v)
		}
	}}
	e.Run()
	t.Logf("execs=%d bound=%d failures=%v", e.Execs, e.BoundCompleted, e.Failures)
	if len(e.Failures) != 0 || e.BoundCompleted != 3 {
		t.Fatal("false alarm or incomplete")
	}
}

func TestDeadlock(t *testing.T) {
	e := &Explorer{MaxBound: 1, Body: func(x *Exec) {
		var a, b Mutex
		var wg WaitGroup
		wg.Add(2)
		Go(func() { defer wg.Done(); a.Lock(); b.Lock(); b.Unlock(); a.Unlock() })
		Go(func() { defer wg.Done(); b.Lock(); a.Lock(); a.Unlock(); b.Unlock() })
		wg.Wait()
	}}
	e.Run()
	t.Logf("execs=%d failures=%v", e.Execs, e.Failures)
	found := false
	for k := range e.Failures {
		if len(k) > 8 && k[:8] == "deadlock" {
			found = true
		}
	}
	if !found {
		t.Fatal("deadlock not found")
	}
}

func TestPanicInThread(t *testing.T) {
	e := &Explorer{MaxBound: 1, Body: func(x *Exec) {
		var mu RWMutex
		var wg WaitGroup
		m := map[int]int{}
		ready := false
		wg.Add(2)
		Go(func() {
			defer wg.Done()
			mu.Lock()
			ready = true
			mu.Unlock()
			Yield("store.write")
			mu.Lock()
			m[1] = 1
			mu.Unlock()
		})
		Go(func() {
			defer wg.Done()
			mu.RLock()
			defer mu.RUnlock()
			if ready {
				if _, ok := m[1]; !ok {
					panic("there should be an element")
				}
			}
		})
		wg.Wait()
	}}
	e.Run()
	t.Logf("execs=%d failures=%v", e.Execs, e.Failures)
	if len(e.Failures) == 0 {
		t.Fatal("window not found")
	}
}

// a batcher with a timer: everything fed must come out, whatever the split over time
func TestSelectTimer(t *testing.T) {
	e := &Explorer{MaxBound: 2, Body: func(x *Exec) {
		in := make(chan int, 10)
		quit := make(chan bool)
		var out [][]int
		GoNamed("batcher", true, func() {
			var batch []int
			for {
				switch Select(R(in), T(0), R(quit)) {
				case 0:
					v := <-in
					if len(batch) == 2 {
						out = append(out, batch)
						batch = nil
					}
					batch = append(batch, v)
				case 1:
					if len(batch) > 0 {
						out = append(out, batch)
						batch = nil
						Yield("publish")
					}
				case 2:
					return
				}
			}
		})
		for i := 0; i < 3; i++ {
			WaitSend(in)
			in <- i
		}
		// the feeder is done; main waits for time to drain the batcher (a daemon) and then leaves
		Yield("fed")
		Block("drained", func() bool {
			n := 0
			for _, b := range out {
				n += len(b)
			}
			return n == 3
		})
		x.Observe(fmt.Sprint(out))
	}}
	e.Run()
	t.Logf("execs=%d bound=%d outcomes=%v failures=%v", e.Execs, e.BoundCompleted, e.Outcomes, e.Failures)
	if len(e.Failures) != 0 || len(e.Outcomes) < 2 {
		t.Fatal("timer exploration wrong")
	}
}

// recursive read locking deadlocks when a writer arrives in between (sync.RWMutex semantics)
func TestRecursiveRLock(t *testing.T) {
	e := &Explorer{MaxBound: 2, Body: func(x *Exec) {
		var mu RWMutex
		var wg WaitGroup
		wg.Add(2)
		Go(func() { defer wg.Done(); mu.RLock(); mu.RLock(); mu.RUnlock(); mu.RUnlock() })
		Go(func() { defer wg.Done(); mu.Lock(); mu.Unlock() })
		wg.Wait()
	}}
	e.Run()
	t.Logf("execs=%d failures=%v", e.Execs, e.Failures)
	found := false
	for k := range e.Failures {
		if len(k) > 8 && k[:8] == "deadlock" {
			found = true
		}
	}
	if !found {
		t.Fatal("recursive read lock deadlock not found")
	}
}
