//go:build verif

// Package c14: each store back-end behaves as an atomic, ordered, per-table map.
// Explicit-state search over store *contents*: transitions are real Mutate calls, after
// every transition every read operation is compared with a map model.
package c14

import (
	"bytes"
	"encoding/json"
	"fmt"
	"os"
	"path/filepath"
	"runtime"
	"sort"
	"strings"
	"sync/atomic"
	"testing"
	"time"

	"github.com/bbva/qed/storage"
	"github.com/bbva/qed/storage/bplus"
	"github.com/bbva/qed/storage/rocks"
	"github.com/bbva/qed/verifx/ev"
)

type Mut struct {
	T int    `json:"table"`
	K string `json:"key"` // hex
	V string `json:"value"`
}

type Batch []Mut

var tables = []storage.Table{storage.HyperTable, storage.HyperCacheTable, storage.HistoryTable, storage.FSMStateTable}

func hexKey(s string) []byte {
	var b []byte
	fmt.Sscanf(s, "%x", &b)
	return b
}

type model map[int]map[string]string // table -> key(hex) -> value

func (m model) clone() model {
	o := model{}
	for t, kv := range m {
		o[t] = map[string]string{}
		for k, v := range kv {
			o[t][k] = v
		}
	}
	return o
}

func (m model) apply(b Batch) {
	for _, x := range b {
		if m[x.T] == nil {
			m[x.T] = map[string]string{}
		}
		m[x.T][x.K] = x.V
	}
}

func (m model) canon() string {
	var parts []string
	for t, kv := range m {
		for k, v := range kv {
			parts = append(parts, fmt.Sprintf("%d/%s=%s", t, k, v))
		}
	}
	sort.Strings(parts)
	return strings.Join(parts, ";")
}

func (m model) sortedKeys(t int) [][]byte {
	var ks [][]byte
	for k := range m[t] {
		ks = append(ks, hexKey(k))
	}
	sort.Slice(ks, func(a, b int) bool { return bytes.Compare(ks[a], ks[b]) < 0 })
	return ks
}

type backend interface {
	name() string
	open() (storage.Store, error)
	reopen(s storage.Store) (storage.Store, error) // nil,nil if not durable
	cleanup(s storage.Store)
}

type bplusBE struct{}

func (bplusBE) name() string                 { return "bplus" }
func (bplusBE) open() (storage.Store, error) { return bplus.NewBPlusTreeStore(), nil }
func (bplusBE) reopen(storage.Store) (storage.Store, error) {
	return nil, nil
}
func (bplusBE) cleanup(s storage.Store) { s.Close() }

var dirSeq int64

type rocksBE struct{ dirs map[storage.Store]string }

func (rocksBE) name() string { return "rocks" }
func (r rocksBE) open() (storage.Store, error) {
	dir := filepath.Join(os.Getenv("VERIF_SCRATCH_DIR"), fmt.Sprintf("db%d", atomic.AddInt64(&dirSeq, 1)))
	os.MkdirAll(dir, 0755)
	s, err := rocks.NewRocksDBStore(dir, 0)
	if err != nil {
		return nil, err
	}
	return &rstore{s, dir}, nil
}

type rstore struct {
	*rocks.RocksDBStore
	dir string
}

func (r rocksBE) reopen(s storage.Store) (storage.Store, error) {
	rs := s.(*rstore)
	if err := rs.RocksDBStore.Close(); err != nil {
		return nil, err
	}
	n, err := rocks.NewRocksDBStore(rs.dir, 0)
	if err != nil {
		return nil, err
	}
	return &rstore{n, rs.dir}, nil
}
func (r rocksBE) cleanup(s storage.Store) {
	rs := s.(*rstore)
	rs.RocksDBStore.Close()
	os.RemoveAll(rs.dir)
}

type caseDesc struct {
	Backend string  `json:"backend"`
	Hist    []Batch `json:"history"`
	Op      string  `json:"op"`
	Reopen  bool    `json:"afterReopen,omitempty"`
}

func toMutations(b Batch) []*storage.Mutation {
	var out []*storage.Mutation
	for _, x := range b {
		out = append(out, storage.NewMutation(tables[x.T], hexKey(x.K), []byte(x.V)))
	}
	return out
}

// compareAll runs every read operation against the model.
func compareAll(r *ev.Run, be string, hist []Batch, s storage.Store, m model, keys []string, reopened bool) {
	v := func(sig, op string) {
		r.Violation(be+": "+sig, caseDesc{be, hist, op, reopened})
	}
	for t := range tables {
		tb := tables[t]
		// Get
		for _, k := range keys {
			var kv *storage.KVPair
			var err error
			pn, msg := ev.Catch(func() { kv, err = s.Get(tb, hexKey(k)) })
			r.Eval(1)
			want, ok := m[t][k]
			op := fmt.Sprintf("Get(%s,%s)", tb, k)
			switch {
			case pn:
				v("Get panics: "+msg, op)
			case ok && err != nil:
				if want == "" {
					v("Get reports not-found for a key stored with an empty value", op)
				} else {
					v("Get does not find a stored key", op)
				}
			case ok && string(kv.Value) != want:
				v("Get returns a value other than the last one written", op)
			case !ok && err == nil:
				v("Get finds a key that was never written to this table", op)
			case !ok && err != storage.ErrKeyNotFound:
				v("Get of a missing key returns an error other than ErrKeyNotFound", op)
			}
		}
		sk := m.sortedKeys(t)
		// GetRange over all ordered and unordered pairs
		for _, a := range keys {
			for _, b := range keys {
				var got storage.KVRange
				var err error
				pn, msg := ev.Catch(func() { got, err = s.GetRange(tb, hexKey(a), hexKey(b)) })
				r.Eval(1)
				op := fmt.Sprintf("GetRange(%s,%s,%s)", tb, a, b)
				if pn || err != nil {
					v("GetRange fails: "+msg, op)
					continue
				}
				var want [][]byte
				for _, k := range sk {
					if bytes.Compare(k, hexKey(a)) >= 0 && bytes.Compare(k, hexKey(b)) <= 0 {
						want = append(want, k)
					}
				}
				if !sameKV(got, want, m[t]) {
					v(classifyRange(got, want, m[t]), op)
				}
			}
		}
		// GetAll with reader buffers of 1, 2, 100
		for _, bs := range []int{1, 2, 100} {
			var got storage.KVRange
			op := fmt.Sprintf("GetAll(%s) buffer=%d", tb, bs)
			pn, msg := ev.Catch(func() {
				rd := s.GetAll(tb)
				defer rd.Close()
				for i := 0; i < 1000; i++ {
					buf := make([]*storage.KVPair, bs)
					n, err := rd.Read(buf)
					if err != nil || n == 0 {
						return
					}
					for j := 0; j < n; j++ {
						got = append(got, *buf[j])
					}
				}
				panic("reader never ends")
			})
			r.Eval(1)
			if pn {
				v("GetAll fails: "+msg, op)
				continue
			}
			if !sameKV(got, sk, m[t]) {
				v("GetAll: "+classifyScan(got, sk, m[t]), op)
			}
		}
		// GetLast
		{
			var kv *storage.KVPair
			var err error
			op := fmt.Sprintf("GetLast(%s)", tb)
			pn, msg := ev.Catch(func() { kv, err = s.GetLast(tb) })
			r.Eval(1)
			switch {
			case pn:
				v("GetLast panics: "+msg, op)
			case len(sk) == 0 && err == nil:
				v("GetLast of an empty table returns a row (of another table)", op)
			case len(sk) == 0 && err != storage.ErrKeyNotFound:
				v("GetLast of an empty table returns an error other than ErrKeyNotFound", op)
			case len(sk) > 0 && err != nil:
				v("GetLast does not find the greatest key of a non-empty table", op)
			case len(sk) > 0 && !bytes.Equal(kv.Key, sk[len(sk)-1]):
				if _, mine := m[t][fmt.Sprintf("%x", kv.Key)]; mine {
					v("GetLast returns a key of the table that is not its greatest", op)
				} else {
					v("GetLast returns a row of another table", op)
				}
			case len(sk) > 0 && string(kv.Value) != m[t][fmt.Sprintf("%x", sk[len(sk)-1])]:
				v("GetLast returns the greatest key with a wrong value", op)
			}
		}
	}
}

func sameKV(got storage.KVRange, want [][]byte, kv map[string]string) bool {
	if len(got) != len(want) {
		return false
	}
	for i := range want {
		if !bytes.Equal(got[i].Key, want[i]) || string(got[i].Value) != kv[fmt.Sprintf("%x", want[i])] {
			return false
		}
	}
	return true
}

func classifyRange(got storage.KVRange, want [][]byte, kv map[string]string) string {
	return "GetRange: " + classifyScan(got, want, kv)
}

func classifyScan(got storage.KVRange, want [][]byte, kv map[string]string) string {
	wantSet := map[string]bool{}
	for _, k := range want {
		wantSet[string(k)] = true
	}
	seen := map[string]int{}
	for _, g := range got {
		seen[string(g.Key)]++
		if _, mine := kv[fmt.Sprintf("%x", g.Key)]; !mine {
			return "returns a row that is not in this table (leak from another table)"
		}
		if !wantSet[string(g.Key)] {
			return "returns a key outside the requested bounds"
		}
	}
	for k, n := range seen {
		if n > 1 {
			_ = k
			return "returns an entry more than once"
		}
	}
	for _, k := range want {
		if seen[string(k)] == 0 {
			if len(k) == 0 {
				return "misses the entry with the empty key"
			}
			return "misses an entry of the table"
		}
	}
	for i := 1; i < len(got); i++ {
		if bytes.Compare(got[i-1].Key, got[i].Key) >= 0 {
			return "returns entries out of order"
		}
	}
	return "returns a wrong value"
}

func explore(r *ev.Run, be backend, keys []string, values []string, depthAll, depthDedup int, pairDepth int) {
	withPairs := pairDepth > 0
	pairStride := 7
	if be.name() == "rocks" {
		pairStride = 23
	}
	var single []Mut
	for t := range tables {
		for _, k := range keys {
			for _, v := range values {
				single = append(single, Mut{t, k, v})
			}
		}
	}
	var alphabet []Batch
	for _, m := range single {
		alphabet = append(alphabet, Batch{m})
	}
	if withPairs { // one Mutate call carrying two mutations (same or different tables)
		for i, a := range single {
			for j, b := range single {
				if (i*31+j)%pairStride == 0 || a.T != b.T && a.K == b.K && a.V == b.V {
					alphabet = append(alphabet, Batch{a, b})
				}
			}
		}
	}
	type node struct {
		hist []Batch
		m    model
		pair bool
	}
	t0 := time.Now()
	frontier := []node{{nil, model{}, false}}
	seen := map[string]bool{"": true}
	r.States(1)
	for depth := 1; depth <= depthDedup; depth++ {
		var next []node
		for _, n := range frontier {
			for _, b := range alphabet {
				if depth > 1 && len(b) > 1 {
					continue // two-mutation batches only as the first transition (bounded)
				}
				if n.pair && depth > pairDepth {
					continue // histories that start with a two-mutation batch are expanded to pairDepth only
				}
				m2 := n.m.clone()
				m2.apply(b)
				c := m2.canon()
				if depth > depthAll {
					if seen[c] {
						continue
					}
				}
				if !seen[c] {
					seen[c] = true
					r.States(1)
				}
				h2 := append(append([]Batch{}, n.hist...), b)
				next = append(next, node{h2, m2, n.pair || len(b) > 1})
			}
		}
		r.Transitions(len(next))
		// evaluate all successors of this level in parallel
		workers := runtime.NumCPU()
		if be.name() == "rocks" {
			workers = 16 // opening RocksDB instances does not scale: 16 concurrent opens take ~0.5 s each
		}
		ev.ParallelFor(len(next), workers, func(i int) {
			if !r.Mine(i) {
				return
			}
			if r.OutOfTime() {
				r.Capped(fmt.Sprintf("%s: internal deadline reached at depth %d", be.name(), depth))
				return
			}
			n := next[i]
			s, err := be.open()
			if err != nil {
				r.Violation(be.name()+": cannot open a fresh store: "+err.Error(), caseDesc{be.name(), n.hist, "open", false})
				return
			}
			for _, b := range n.hist {
				var err error
				pn, msg := ev.Catch(func() { err = s.Mutate(toMutations(b), []byte("meta")) })
				if pn || err != nil {
					r.Violation(be.name()+": Mutate fails: "+msg, caseDesc{be.name(), n.hist, "Mutate", false})
				}
			}
			compareAll(r, be.name(), n.hist, s, n.m, keys, false)
			if s2, err := be.reopen(s); err != nil {
				r.Violation(be.name()+": close+reopen fails: "+err.Error(), caseDesc{be.name(), n.hist, "reopen", true})
			} else if s2 != nil {
				s = s2
				compareAll(r, be.name(), n.hist, s, n.m, keys, true)
			}
			be.cleanup(s)
			r.Distinct(be.name() + "|" + n.m.canon())
			if i%997 == 0 {
				r.Sample(caseDesc{be.name(), n.hist, "all reads", false})
			}
		})
		frontier = next
		if r.OutOfTime() {
			break
		}
		r.Bound(fmt.Sprintf("%s_depth_completed", be.name()), depth)
		fmt.Printf("[c14] %s depth %d: %d nodes, t=%s\n", be.name(), depth, len(next), time.Since(t0))
	}
}

// atomicity: a Mutate that fails in the middle (its LAST mutation names a table the store does not
// have, which makes the real RocksDBStore.Mutate panic while it assembles the batch) must leave no
// trace: for every batch size, none of the earlier mutations of that call may be visible afterwards.
func atomicity(r *ev.Run) {
	for _, n := range []int{2, 3, 50, 300, 4095, 4096, 4097, 5000, 9000, 20000} {
		be := rocksBE{}
		s, err := be.open()
		if err != nil {
			panic(err)
		}
		var muts []*storage.Mutation
		for i := 0; i < n-1; i++ {
			k := []byte(fmt.Sprintf("k%06d", i))
			muts = append(muts, storage.NewMutation(tables[i%4], k, []byte("v")))
		}
		muts = append(muts, storage.NewMutation(storage.Table(99), []byte("bad"), []byte("v")))
		pn, _ := ev.Catch(func() { err = s.Mutate(muts, []byte("meta")) })
		r.Eval(1)
		hist := []Batch{{Mut{0, fmt.Sprintf("%d mutations, the last one to an unknown table", n), ""}}}
		if !pn && err == nil {
			r.Violation("rocks: Mutate accepts a mutation for a table that does not exist", caseDesc{"rocks", hist, "Mutate", false})
		}
		visible := 0
		for i := 0; i < n-1; i++ {
			if _, err := s.Get(tables[i%4], []byte(fmt.Sprintf("k%06d", i))); err == nil {
				visible++
			}
		}
		for t := range tables {
			if _, err := s.GetLast(tables[t]); err == nil {
				visible++
			}
		}
		if visible > 0 {
			r.Violation("rocks: a Mutate call that fails part-way leaves some of its mutations visible (batch not atomic)", caseDesc{"rocks", hist, fmt.Sprintf("%d of %d mutations visible", visible, n-1), false})
		}
		r.Distinct(fmt.Sprintf("atomic %d", n))
		be.cleanup(s)
	}
}

func TestC14(t *testing.T) {
	r := ev.Begin("C14")
	r.Rule("explicit-state search over store contents: transitions = real Mutate calls (one mutation; two-mutation batches as first transition) over 4 tables x crafted keys (empty, 00, ff, ff*10, ff*11, a) x values (x, y, empty); all sequences without de-duplication up to depth_all, de-duplicated on contents beyond; after every transition Get of every key, GetRange over all key pairs, GetAll with reader buffers 1/2/100 and GetLast on every table are compared with a map model; RocksDB additionally after close+reopen; distinct = distinct (back-end, contents) states")
	r.Assume("google/btree and librocksdb themselves are trusted; de-duplication on contents assumes a store's answers depend on its contents only, which the no-dedup levels check directly",
		"all-or-nothing is checked for RocksDB by making a Mutate of 2..20000 mutations fail at its last mutation; visibility of a half-applied batch to a *concurrent* reader is not explored (B+ store is unsynchronised by design and used only in tests; RocksDB's WriteBatch atomicity is trusted base)")
	if r.Replay != "" {
		var rd struct {
			Detail caseDesc `json:"detail"`
		}
		b, _ := os.ReadFile(r.Replay)
		json.Unmarshal(b, &rd)
		var be backend = bplusBE{}
		if rd.Detail.Backend == "rocks" {
			be = rocksBE{}
		}
		s, _ := be.open()
		m := model{}
		for _, b := range rd.Detail.Hist {
			s.Mutate(toMutations(b), nil)
			m.apply(b)
		}
		compareAll(r, be.name(), rd.Detail.Hist, s, m, []string{"", "00", "ff", "ffffffffffffffffffff", "ffffffffffffffffffffff", "61"}, false)
		be.cleanup(s)
		r.Finish()
		return
	}
	keys := []string{"", "00", "ff", "ffffffffffffffffffff", "ffffffffffffffffffffff", "61"}
	values := []string{"x", "y", ""}
	if r.Thorough() {
		atomicity(r)
		explore(r, bplusBE{}, keys, values, 2, 4, 2)
		explore(r, rocksBE{}, keys, values, 2, 3, 1)
	} else {
		atomicity(r)
		explore(r, bplusBE{}, keys, values, 2, 3, 2)
		explore(r, rocksBE{}, []string{"", "ff", "ffffffffffffffffffff", "ffffffffffffffffffffff"}, []string{"x", ""}, 1, 2, 1)
	}
	r.Finish()
}
