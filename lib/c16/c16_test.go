//go:build verif

// Package c16: a backup restores to exactly the log as of the backup's version.
// Explicit-state BFS over {add(1), add(2), backup, delete(id)} on a bare RaftNode over a real
// RocksDB store (real CreateBackup / ListBackups / DeleteBackup). In EVERY reachable state every
// existing backup is restored the way cmd/restore.go does it (a separate backup engine on the
// backup directory, RestoreDBFromBackup(id, dir, dir)) into a fresh directory, a node is opened on
// it and interrogated.
package c16

import (
	"bytes"
	"encoding/json"
	"fmt"
	"os"
	"path/filepath"
	"runtime"
	"sort"
	"strings"
	"sync"
	"sync/atomic"
	"testing"

	"github.com/bbva/qed/balloon"
	"github.com/bbva/qed/balloon/hyper"
	"github.com/bbva/qed/consensus"
	"github.com/bbva/qed/crypto/hashing"
	"github.com/bbva/qed/protocol"
	"github.com/bbva/qed/rocksdb"
	"github.com/bbva/qed/storage"
	"github.com/bbva/qed/storage/rocks"
	"github.com/bbva/qed/verifx/ev"
	"github.com/bbva/qed/verifx/fx"
	"github.com/bbva/qed/verifx/hx"
	"github.com/bbva/qed/verifx/nx"
	"github.com/hashicorp/raft"
)

type event struct {
	Kind string `json:"kind"` // add | backup | delete | restart
	K    int    `json:"n,omitempty"`
	ID   uint32 `json:"id,omitempty"`
}

func (e event) String() string {
	switch e.Kind {
	case "add":
		return fmt.Sprintf("add(%d)", e.K)
	case "delete":
		return fmt.Sprintf("delete(%d)", e.ID)
	}
	return e.Kind
}

func pathString(p []event) string {
	s := make([]string, len(p))
	for i, e := range p {
		s[i] = e.String()
	}
	return strings.Join(s, " ")
}

type backup struct {
	ID     uint32
	Events int // number of events in the log when it was taken
}

// model: what the specification says the state is
type model struct {
	entries []int // bulk sizes
	events  int
	backups []backup
	nextID  uint32 // one more than the greatest id ever seen
	taken   int    // backups taken so far
}

type world struct {
	r     *ev.Run
	dir   string
	rs    *rocks.RocksDBStore
	node  *consensus.RaftNode
	m     model
	acked []*balloon.Snapshot
	path  []event
}

var seq, allocated, notEmpty int64

func newDir(tag string) string {
	d := filepath.Join(os.Getenv("VERIF_SCRATCH_DIR"), fmt.Sprintf("%s%d", tag, atomic.AddInt64(&seq, 1)))
	os.MkdirAll(d, 0755)
	return d
}

// batch caches are recycled: allocating and zeroing 1.15 GB per balloon dominates the cost otherwise
var (
	poolMu sync.Mutex
	pool   []*hyper.BatchCache
	caches = map[*consensus.RaftNode]*hyper.BatchCache{}
)

func allKeys() [][]byte {
	var ks [][]byte
	for i := 0; i < 12; i++ {
		ks = append(ks, fx.Digest(i))
	}
	return ks
}

func openNode(dir string) (*rocks.RocksDBStore, *consensus.RaftNode, error) {
	rs, err := rocks.NewRocksDBStore(dir, 0)
	if err != nil {
		return nil, nil, err
	}
	poolMu.Lock()
	var bc *hyper.BatchCache
	if k := len(pool); k > 0 {
		bc, pool = pool[k-1], pool[:k-1]
	}
	poolMu.Unlock()
	if bc == nil {
		bc = hyper.NewBatchCache(hyper.DefaultBatchLevels)
		atomic.AddInt64(&allocated, 1)
	}
	n, err := consensus.VerifNewBareNode("n0", rs, bc, nil)
	if err != nil {
		rs.Close()
		return nil, nil, err
	}
	poolMu.Lock()
	caches[n] = bc
	poolMu.Unlock()
	return rs, n, nil
}

func closeNode(n *consensus.RaftNode) {
	n.VerifCloseBare()
	poolMu.Lock()
	bc := caches[n]
	delete(caches, n)
	poolMu.Unlock()
	if bc != nil {
		if bc.VerifReset(allKeys()) {
			poolMu.Lock()
			pool = append(pool, bc)
			poolMu.Unlock()
		} else {
			atomic.AddInt64(&notEmpty, 1)
		}
	}
}

func newWorld(r *ev.Run) (*world, error) {
	w := &world{r: r, dir: newDir("w"), m: model{nextID: 1}}
	var err error
	w.rs, w.node, err = openNode(w.dir)
	return w, err
}

func (w *world) close() {
	if w.node != nil {
		closeNode(w.node)
		w.node = nil
	}
	if w.rs != nil {
		w.rs.Close()
		w.rs = nil
	}
}

func (w *world) destroy() {
	w.close()
	os.RemoveAll(w.dir)
}

func (w *world) viol(sig string, more map[string]interface{}) {
	d := map[string]interface{}{"path": pathString(w.path), "events": w.path}
	for k, v := range more {
		d[k] = v
	}
	w.r.Violation(sig, d)
}

func applyAdd(node *consensus.RaftNode, index uint64, first, k int) ([]*balloon.Snapshot, error) {
	hs := make([]hashing.Digest, k)
	for i := 0; i < k; i++ {
		hs[i] = fx.Digest(first + i)
	}
	data, err := consensus.VerifEncodeAddCommand(hs)
	if err != nil {
		return nil, err
	}
	var res interface{}
	pn, msg := ev.Catch(func() {
		res = node.Apply(&raft.Log{Index: index, Term: 1, Type: raft.LogCommand, Data: data})
	})
	if pn {
		return nil, fmt.Errorf("panic: %s", msg)
	}
	return consensus.VerifApplyResult(res)
}

func (w *world) step(e event, quiet bool) bool {
	w.path = append(w.path, e)
	switch e.Kind {
	case "add":
		snaps, err := applyAdd(w.node, uint64(len(w.m.entries)+1), w.m.events, e.K)
		if err != nil || len(snaps) != e.K {
			if !quiet {
				w.viol("an insertion fails on the node whose backups are being managed", map[string]interface{}{"error": fmt.Sprint(err)})
			}
			return false
		}
		w.acked = append(w.acked, snaps...)
		w.m.entries = append(w.m.entries, e.K)
		w.m.events += e.K
	case "backup":
		var err error
		pn, msg := ev.Catch(func() { err = w.node.CreateBackup() })
		if pn || err != nil {
			if !quiet {
				w.viol("creating a backup fails", map[string]interface{}{"error": fmt.Sprint(err, msg)})
			}
			return false
		}
		// the id is the backup engine's to choose (it numbers from the greatest id it finds when it is
		// opened, so an id can come back after every backup was deleted and the node restarted): the
		// model learns it from the listing, where exactly one new id must have appeared
		known := map[uint32]bool{}
		for _, b := range w.m.backups {
			known[b.ID] = true
		}
		var fresh []uint32
		for _, bi := range w.node.ListBackups() {
			if !known[uint32(bi.ID)] {
				fresh = append(fresh, uint32(bi.ID))
			}
		}
		if len(fresh) != 1 {
			if !quiet {
				w.viol("after creating a backup the listing does not show exactly one new backup", map[string]interface{}{"newIds": fmt.Sprint(fresh)})
			}
			return false
		}
		w.m.backups = append(w.m.backups, backup{fresh[0], w.m.events})
		w.m.taken++
		if fresh[0] >= w.m.nextID {
			w.m.nextID = fresh[0] + 1
		}
	case "delete":
		have := false
		for _, b := range w.m.backups {
			if b.ID == e.ID {
				have = true
			}
		}
		if !have {
			w.r.Extra("delete_events_for_ids_the_engine_did_not_assign", 1)
			return false // the enumeration guessed an id the engine did not assign: not a verdict
		}
		var err error
		pn, msg := ev.Catch(func() { err = w.node.DeleteBackup(e.ID) })
		if pn || err != nil {
			if !quiet {
				w.viol("deleting an existing backup fails", map[string]interface{}{"id": e.ID, "error": fmt.Sprint(err, msg)})
			}
			return false
		}
		var nb []backup
		for _, b := range w.m.backups {
			if b.ID != e.ID {
				nb = append(nb, b)
			}
		}
		w.m.backups = nb
	case "restart":
		w.close()
		var err error
		w.rs, w.node, err = openNode(w.dir)
		if err != nil {
			if !quiet {
				w.viol("the node does not reopen on its data", map[string]interface{}{"error": err.Error()})
			}
			return false
		}
	}
	return true
}

type bounds struct {
	maxEvents, maxBackups, depth int
	restarts                     bool
}

func (w *world) enabled(b bounds) []event {
	var out []event
	if w.m.events+1 <= b.maxEvents {
		out = append(out, event{Kind: "add", K: 1})
	}
	if w.m.events+2 <= b.maxEvents {
		out = append(out, event{Kind: "add", K: 2})
	}
	if w.m.taken < b.maxBackups {
		out = append(out, event{Kind: "backup"})
	}
	for _, bk := range w.m.backups {
		out = append(out, event{Kind: "delete", ID: bk.ID})
	}
	if b.restarts {
		n := 0
		for _, e := range w.path {
			if e.Kind == "restart" {
				n++
			}
		}
		if n < 1 {
			out = append(out, event{Kind: "restart"})
		}
	}
	return out
}

func (w *world) canon() string {
	var bs []string
	for _, b := range w.m.backups {
		bs = append(bs, fmt.Sprintf("%d@%d", b.ID, b.Events))
	}
	sort.Strings(bs)
	rs := 0
	for _, e := range w.path {
		if e.Kind == "restart" {
			rs++
		}
	}
	return fmt.Sprint(w.m.entries, "|", strings.Join(bs, ","), "|next", w.m.nextID, "|r", rs)
}

// check: the listing, then - with the source node stopped, as an operator would - every backup restored.
func (w *world) check(liveRestore bool) {
	infos := w.node.ListBackups()
	w.r.Eval(1)
	got := map[uint32]string{}
	for _, bi := range infos {
		if _, dup := got[uint32(bi.ID)]; dup {
			w.viol("the backup listing shows a backup twice", map[string]interface{}{"id": bi.ID})
		}
		got[uint32(bi.ID)] = bi.Metadata
	}
	for _, b := range w.m.backups {
		md, ok := got[b.ID]
		if !ok {
			w.viol("the backup listing misses an existing backup", map[string]interface{}{"id": b.ID})
			continue
		}
		if b.Events > 0 && md != fmt.Sprintf("%d", b.Events-1) {
			w.viol("a backup does not record the version the log had when it was taken", map[string]interface{}{"id": b.ID, "recorded": md, "version": b.Events - 1})
		}
		delete(got, b.ID)
	}
	for id := range got {
		w.viol("the backup listing shows a backup that was deleted or never taken", map[string]interface{}{"id": id})
	}
	backupDir := w.dir + "/backups"
	if liveRestore {
		for _, b := range w.m.backups {
			dst := newDir("lr")
			var err error
			pn, msg := ev.Catch(func() { err = w.rs.RestoreFromBackup(b.ID, dst, dst) })
			if pn || err != nil {
				w.viol("restoring an existing backup through the running store fails", map[string]interface{}{"id": b.ID, "error": fmt.Sprint(err, msg)})
			} else {
				w.probeRestored(dst, b, "store")
			}
			os.RemoveAll(dst)
		}
	}
	w.close()
	for _, b := range w.m.backups {
		dst := newDir("rs")
		err := restoreLikeCmd(backupDir, b.ID, dst)
		if err != nil {
			w.viol("restoring an existing backup fails", map[string]interface{}{"id": b.ID, "error": err.Error()})
		} else {
			w.probeRestored(dst, b, "cmd")
		}
		os.RemoveAll(dst)
	}
	// a deleted backup must not be restorable under its id, and must not resurrect another one
	present := map[uint32]bool{}
	for _, b := range w.m.backups {
		present[b.ID] = true
	}
	for id := uint32(1); id < w.m.nextID; id++ {
		if present[id] {
			continue
		}
		dst := newDir("rd")
		if err := restoreLikeCmd(backupDir, id, dst); err == nil {
			w.viol("a deleted backup can still be restored", map[string]interface{}{"id": id})
		}
		os.RemoveAll(dst)
	}
}

// restoreLikeCmd is cmd/restore.go's runRestore for an explicit id.
func restoreLikeCmd(backupDir string, id uint32, dst string) (err error) {
	pn, msg := ev.Catch(func() {
		bo := rocksdb.NewDefaultOptions()
		defer bo.Destroy()
		be, e := rocksdb.OpenBackupEngine(bo, backupDir)
		if e != nil {
			err = e
			return
		}
		defer be.Close()
		ro := rocksdb.NewRestoreOptions()
		defer ro.Destroy()
		err = be.RestoreDBFromBackup(id, dst, dst, ro)
	})
	if pn {
		return fmt.Errorf("panic: %s", msg)
	}
	return err
}

func (w *world) probeRestored(dir string, b backup, how string) {
	more := map[string]interface{}{"id": b.ID, "takenAtEvents": b.Events, "via": how}
	var rs *rocks.RocksDBStore
	var n *consensus.RaftNode
	var err error
	pn, msg := ev.Catch(func() { rs, n, err = openNode(dir) })
	if pn || err != nil {
		more["error"] = fmt.Sprint(err, msg)
		w.viol("a node cannot be opened on a restored backup", more)
		return
	}
	defer func() {
		closeNode(n)
		rs.Close()
	}()
	bl := n.VerifBalloon()
	w.r.Eval(1)
	if bl.Version() != uint64(b.Events) {
		more["version"] = bl.Version()
		w.viol("a restored backup does not hold exactly the events the log had when the backup was taken", more)
		return
	}
	if b.Events == 0 {
		return
	}
	cur := uint64(b.Events - 1)
	for v := uint64(0); v <= cur; v++ {
		for q := v; q <= cur; q++ {
			w.r.Eval(1)
			var p *balloon.MembershipProof
			pn, msg := ev.Catch(func() {
				var e error
				p, e = n.QueryDigestMembershipConsistency(fx.Digest(int(v)), q)
				if e != nil {
					panic(e.Error())
				}
			})
			if pn {
				more["error"] = msg
				w.viol("a restored node fails to answer a membership query for an event of the backup", more)
				return
			}
			snap := &balloon.Snapshot{HistoryDigest: w.acked[q].HistoryDigest, HyperDigest: w.acked[cur].HyperDigest}
			wp, _, e := hx.WireMembership(p)
			if e != nil || !p.Exists || p.ActualVersion != v || p.CurrentVersion != cur || !wp.DigestVerify(fx.Digest(int(v)), snap) {
				w.viol("a membership proof of a restored node does not verify against the snapshots originally issued", more)
				return
			}
		}
	}
	for j := uint64(0); j <= cur; j++ {
		for i := uint64(0); i <= j; i++ {
			w.r.Eval(1)
			var p *balloon.IncrementalProof
			pn, _ := ev.Catch(func() {
				var e error
				p, e = n.QueryConsistency(i, j)
				if e != nil {
					panic(e.Error())
				}
			})
			if pn {
				w.viol("a restored node fails to answer a consistency query for versions of the backup", more)
				return
			}
			wp, _, e := hx.WireIncremental(p)
			if e != nil || !wp.Verify(w.acked[i], w.acked[j]) {
				w.viol("a consistency proof of a restored node does not verify against the snapshots originally issued", more)
				return
			}
		}
	}
	// knows nothing of later events
	for v := b.Events; v < w.m.events; v++ {
		w.r.Eval(1)
		var p *balloon.MembershipProof
		pn, _ := ev.Catch(func() {
			var e error
			p, e = n.QueryDigestMembership(fx.Digest(v))
			if e != nil {
				panic(e.Error())
			}
		})
		if !pn && p.Exists {
			w.viol("a restored node knows an event that was added after the backup", more)
			return
		}
	}
	if _, e := n.QueryConsistency(0, cur+1); e == nil {
		w.viol("a restored node proves consistency with a version later than the backup", more)
	}
	// the persisted applied state must be the one of the backup's last entry
	idx, ver := n.VerifState()
	entries, evs := 0, 0
	for _, k := range w.m.entries {
		if evs >= b.Events {
			break
		}
		evs += k
		entries++
	}
	if ver != cur || idx != uint64(entries) {
		more["fsmIndex"], more["fsmVersion"] = idx, ver
		w.viol("the applied-state restored from a backup is not that of the backup's last entry", more)
	}
	// next event gets the next version, and - fed the original event - the original snapshot
	snaps, e := applyAdd(n, uint64(entries+1), b.Events, 1)
	if e != nil || len(snaps) != 1 {
		more["error"] = fmt.Sprint(e)
		w.viol("a restored node cannot accept the next event", more)
		return
	}
	if snaps[0].Version != uint64(b.Events) {
		more["got"] = snaps[0].Version
		w.viol("a restored node does not assign the version after the backup's to the next event", more)
		return
	}
	if b.Events < len(w.acked) {
		a := w.acked[b.Events]
		// a bulk stamps the hyper digest reached after its LAST event on every snapshot of the bulk, so the
		// hyper digest is comparable only if the original log received this event on its own
		single := entries < len(w.m.entries) && w.m.entries[entries] == 1
		if !bytes.Equal(a.HistoryDigest, snaps[0].HistoryDigest) || (single && !bytes.Equal(a.HyperDigest, snaps[0].HyperDigest)) || !bytes.Equal(a.EventDigest, snaps[0].EventDigest) {
			w.viol("a restored node, fed the event the original log received next, issues a different snapshot", more)
		}
	}
	w.r.Outcome(fmt.Sprintf("restored %d of %d events", b.Events, w.m.events))
}

// every live node owns a 1.15 GB hyper cache: bound the number of workers
func workers() int {
	if n := runtime.NumCPU(); n < 8 {
		return n
	}
	return 8
}

// nodeLevel: "restoring it into a fresh node": a REAL server (real raft with an empty log directory, real
// API mux, child process) is started on the restored data directory and must accept the next event
// with the next version.
func nodeLevel(r *ev.Run) {
	for pi, pre := range [][]int{{1}, {2}, {2, 1}, {1, 1, 1, 2}} {
		c := map[string]interface{}{"entriesBeforeBackup": pre}
		// the source is a real server too, so that the applied index stored with the data is the one a
		// real raft log assigns (the first command of a fresh cluster is not entry 1)
		sdb, srf := newDir("nodesrc"), newDir("nodesrcraft")
		src, err := nx.Start(sdb, srf)
		if err != nil {
			r.Violation("harness: a fresh server does not start: "+firstLine(err.Error()), c)
			continue
		}
		events := 0
		post := func(n *nx.Child, k int) (nx.Resp, error) {
			if k == 1 {
				body, _ := json.Marshal(protocol.Event{Event: []byte(fmt.Sprintf("node-event-%d", events))})
				events++
				return n.HTTP("api", "POST", "/events", body)
			}
			var evs [][]byte
			for j := 0; j < k; j++ {
				evs = append(evs, []byte(fmt.Sprintf("node-event-%d", events)))
				events++
			}
			body, _ := json.Marshal(protocol.EventsBulk{Events: evs})
			return n.HTTP("api", "POST", "/events/bulk", body)
		}
		ok := true
		for _, k := range pre {
			if res, err := post(src, k); err != nil || res.Status != 201 {
				ok = false
			}
		}
		atBackup := events
		if res, err := src.HTTP("mgmt", "POST", "/backup", nil); err != nil || res.Status >= 300 {
			ok = false
		}
		if res, err := post(src, 1); err != nil || res.Status != 201 {
			ok = false
		}
		src.Close()
		if !ok {
			r.Violation("harness: the source server of a backup misbehaves", c)
			continue
		}
		dst, rf := newDir("noderestore"), newDir("noderaft")
		if err := restoreLikeCmd(sdb+"/backups", 1, dst); err != nil {
			r.Violation("restoring an existing backup fails", c)
			continue
		}
		child, err := nx.Start(dst, rf)
		r.Eval(1)
		if err != nil {
			r.Violation("a fresh server cannot be started on a restored backup: "+firstLine(err.Error()), c)
		} else {
			st, _ := child.Do(nx.Req{Op: "state"})
			if int(st.Version) != atBackup {
				c["got"], c["want"] = st.Version, atBackup
				r.Violation("a fresh server started on a restored backup does not hold exactly the events of the backup", c)
			}
			events = atBackup
			res, err := post(child, 1)
			var snap protocol.Snapshot
			switch {
			case err != nil:
				r.Violation("a fresh server started on a restored backup dies on the next insertion", c)
			case res.Panic != "":
				c["panic"] = firstLine(res.Panic)
				r.Violation("a fresh server started on a restored backup cannot accept the next event (the request handler panics)", c)
			case res.Status != 201 || json.Unmarshal(res.Body, &snap) != nil:
				c["status"] = res.Status
				r.Violation("a fresh server started on a restored backup refuses the next event", c)
			case snap.Version != uint64(atBackup):
				c["got"], c["want"] = snap.Version, atBackup
				r.Violation("a fresh server started on a restored backup does not assign the version after the backup's to the next event", c)
			default:
				// and the one after that
				if res2, err := post(child, 2); err != nil || res2.Status != 201 {
					r.Violation("a fresh server started on a restored backup refuses a later insertion", c)
				}
				r.Outcome(fmt.Sprintf("fresh server on a backup of %d events accepted the next events", atBackup))
			}
			child.Kill()
		}
		for _, d := range []string{dst, rf, sdb, srf} {
			os.RemoveAll(d)
		}
		r.Distinct(fmt.Sprint("node restore ", pi, pre))
	}
}

func firstLine(s string) string {
	if i := strings.IndexByte(s, '\n'); i >= 0 {
		s = s[:i]
	}
	if len(s) > 160 {
		s = s[:160]
	}
	return s
}

func TestMain(m *testing.M) {
	if nx.ChildMain() {
		return
	}
	os.Exit(m.Run())
}

func replayPath(r *ev.Run, p []event) (*world, bool) {
	w, err := newWorld(r)
	if err != nil {
		panic(err)
	}
	for _, e := range p {
		if !w.step(e, true) {
			return w, false
		}
	}
	return w, true
}

var _ = storage.HyperTable

func TestC16(t *testing.T) {
	r := ev.Begin("C16")
	r.Rule("explicit-state BFS over add(1), add(2), backup, delete(id) (thorough: + one clean restart) on a real RaftNode FSM over a real RocksDB store with its real backup engine; in EVERY reachable state: ListBackups must equal the model set with metadata = version at backup time; the node is stopped and EVERY existing backup is restored exactly as cmd/restore.go does it into a fresh directory, a node is opened on it and must report the backup's version, prove membership (e,q) and consistency (i,j) for all its events against the snapshots originally issued (JSON wire round trip), know nothing of later events, carry the applied-state of the backup's last entry, assign the next version to the next event and reproduce the original next snapshot; every deleted id must be unrestorable; states de-duplicated on (entry sizes, backup set, next id)")
	r.Assume("librocksdb's backup engine is trusted for file-level integrity; what is checked is QED's use of it (metadata, ids, directories) and the node that comes up on the restored data", "backups are taken on a quiescent node (CreateBackup racing with an apply is a schedule question outside this sequential search)", "a backup of the empty log has no version; its metadata is not checked")
	b := bounds{maxEvents: 4, maxBackups: 2, depth: 5}
	if r.Thorough() {
		b = bounds{maxEvents: 6, maxBackups: 3, depth: 7, restarts: true}
	}
	r.Bound("max_events", b.maxEvents)
	r.Bound("max_backups", b.maxBackups)
	r.Bound("depth", b.depth)
	if r.Replay != "" {
		var rd struct {
			Detail struct {
				Events []event `json:"events"`
			} `json:"detail"`
		}
		bts, _ := os.ReadFile(r.Replay)
		json.Unmarshal(bts, &rd)
		w, ok := replayPath(r, nil)
		for i, e := range rd.Detail.Events {
			if ok = w.step(e, false); !ok {
				break
			}
			if i == len(rd.Detail.Events)-1 {
				w.check(true)
			}
		}
		w.destroy()
		r.Finish()
		return
	}
	if r.Mine(0) {
		nodeLevel(r)
	}
	type node struct{ path []event }
	level := []node{{nil}}
	seen := map[string]bool{}
	var mu sync.Mutex
	r.States(1)
	for d := 1; d <= b.depth && len(level) > 0; d++ {
		var next []node
		ev.ParallelFor(len(level), workers(), func(i int) {
			if !r.Mine(i) {
				return
			}
			if r.OutOfTime() {
				r.Capped(fmt.Sprintf("internal deadline reached at depth %d", d))
				return
			}
			// the enabled events depend on the model part of the state only
			parent := &world{m: model{nextID: 1}}
			for _, e := range level[i].path {
				parent.path = append(parent.path, e)
				switch e.Kind {
				case "add":
					parent.m.entries = append(parent.m.entries, e.K)
					parent.m.events += e.K
				case "backup":
					parent.m.backups = append(parent.m.backups, backup{parent.m.nextID, parent.m.events})
					parent.m.nextID++
					parent.m.taken++
				case "restart":
					// the backup engine numbers from the greatest id it finds when it is opened
					parent.m.nextID = 1
					for _, bk := range parent.m.backups {
						if bk.ID >= parent.m.nextID {
							parent.m.nextID = bk.ID + 1
						}
					}
				case "delete":
					var nb []backup
					for _, bk := range parent.m.backups {
						if bk.ID != e.ID {
							nb = append(nb, bk)
						}
					}
					parent.m.backups = nb
				}
			}
			evs := parent.enabled(b)
			for _, e := range evs {
				w, ok := replayPath(r, level[i].path)
				if ok {
					ok = w.step(e, false)
				}
				r.Transitions(1)
				if !ok {
					w.destroy()
					continue
				}
				key := w.canon()
				mu.Lock()
				isNew := !seen[key]
				seen[key] = true
				mu.Unlock()
				if isNew {
					r.States(1)
					r.Distinct(key)
					w.check(r.Thorough())
					mu.Lock()
					next = append(next, node{append([]event{}, w.path...)})
					if len(seen)%40 == 1 {
						r.Sample(pathString(w.path))
					}
					mu.Unlock()
				}
				w.destroy()
			}
		})
		sort.Slice(next, func(a, c int) bool { return pathString(next[a].path) < pathString(next[c].path) })
		fmt.Printf("[c16] depth %d: %d states expanded, %d new\n", d, len(level), len(next))
		level = next
		if !r.OutOfTime() {
			r.Bound("depth_completed", d)
		}
	}
	r.Extra("batch_caches_allocated", atomic.LoadInt64(&allocated))
	r.Extra("batch_caches_not_recyclable", atomic.LoadInt64(&notEmpty))
	r.Finish()
}
