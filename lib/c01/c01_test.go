//go:build verif

// Package c01: bounded exhaustive enumeration of event sequences x groupings x back-ends
// against the reference trees.  Decides C01 (every added event has a verifying proof at
// every later version) and C04 (digests are a canonical function of the event sequence).
package c01

import (
	"bytes"
	"encoding/json"
	"fmt"
	"os"
	"path/filepath"
	"runtime"
	"runtime/debug"
	"strings"
	"sync/atomic"
	"testing"

	"github.com/bbva/qed/balloon"
	"github.com/bbva/qed/verifx/ev"
	"github.com/bbva/qed/verifx/hx"
	"github.com/bbva/qed/verifx/ref"
)

type Case struct {
	Names     []string   `json:"names"`     // digest names in insertion order (may contain one repeat)
	Comp      []int      `json:"comp"`      // sizes of the consecutive Add/AddBulk groups
	Backend   hx.Backend `json:"backend"`   // bplus | rocks
	Cache     uint16     `json:"cache"`     // history LRU capacity
	RestartAt int        `json:"restartAt"` // close+reopen after this many groups (-1: never)
	ForceBulk bool       `json:"forceBulk"` // groups of one go through AddBulk too
	LongN     int        `json:"longN"`     // >0: a long log of LongN sequential digests instead of Names
}

func (c Case) String() string {
	b, _ := json.Marshal(c)
	return string(b)
}

var caseSeq int64

func (c Case) digests() [][]byte {
	if c.LongN > 0 {
		out := make([][]byte, c.LongN)
		for i := range out {
			out[i] = hx.SeqDigest(i)
		}
		return out
	}
	nd := hx.ByName(c.Names...)
	out := make([][]byte, len(nd))
	for i := range nd {
		out[i] = nd[i].D
	}
	return out
}

func hasRepeat(ds [][]byte) bool {
	for i := range ds {
		for j := 0; j < i; j++ {
			if bytes.Equal(ds[i], ds[j]) {
				return true
			}
		}
	}
	return false
}

type oracle func(r *ev.Run, c Case, step int, d *hx.Driver, lg *ref.Log, newSnaps []*balloon.Snapshot, final bool)

func viol(r *ev.Run, sig string, c Case, step int, more map[string]interface{}) {
	det := map[string]interface{}{"case": c, "step": step}
	for k, v := range more {
		det[k] = v
	}
	r.Violation(sig, det)
}

func normPanic(msg string) string {
	if i := strings.Index(msg, "\n"); i >= 0 {
		msg = msg[:i]
	}
	if len(msg) > 120 {
		msg = msg[:120]
	}
	return msg
}

// runCase drives one case through the real balloon and calls the oracle after every group.
func runCase(r *ev.Run, c Case, o oracle) {
	dir := ""
	if c.Backend == hx.Rocks {
		dir = filepath.Join(os.Getenv("VERIF_SCRATCH_DIR"), fmt.Sprintf("c%d", atomic.AddInt64(&caseSeq, 1)))
		os.MkdirAll(dir, 0755)
	}
	var d *hx.Driver
	p, msg := ev.Catch(func() {
		var err error
		d, err = hx.NewDriver(c.Backend, dir, c.Cache)
		if err != nil {
			panic(err)
		}
	})
	if p {
		viol(r, "opening a fresh balloon fails: "+normPanic(msg), c, -1, nil)
		return
	}
	defer d.Close()
	ds := c.digests()
	lg := &ref.Log{}
	pos := 0
	for step, size := range c.Comp {
		group := ds[pos : pos+size]
		pos += size
		var snaps []*balloon.Snapshot
		p, msg := ev.Catch(func() {
			var err error
			snaps, err = d.Apply(group, c.ForceBulk)
			if err != nil {
				panic("error: " + err.Error())
			}
		})
		if p {
			viol(r, "insertion fails: "+normPanic(msg), c, step, nil)
			return
		}
		for _, g := range group {
			lg.Append(g)
		}
		if c.RestartAt == step+1 {
			p, msg := ev.Catch(func() {
				if err := d.Reopen(); err != nil {
					panic("error: " + err.Error())
				}
			})
			if p {
				viol(r, "close+reopen of the balloon fails ("+string(c.Backend)+"): "+normPanic(msg), c, step, nil)
				return
			}
		}
		o(r, c, step, d, lg, snaps, step == len(c.Comp)-1)
	}
}

// ---------------------------------------------------------------- C01 oracle

func lastVersion(lg *ref.Log, e []byte) uint64 {
	vs := lg.Versions(e)
	return vs[len(vs)-1]
}

func contains(vs []uint64, v uint64) bool {
	for _, x := range vs {
		if x == v {
			return true
		}
	}
	return false
}

func toRefPath(p *balloon.MembershipProof) (ref.HPath, ref.HyperPath) {
	hp := ref.HPath{}
	if p.HistoryProof != nil {
		for k, v := range p.HistoryProof.AuditPath.Serialize() {
			var i uint64
			var h uint16
			fmt.Sscanf(k, "%d|%d", &i, &h)
			hp[ref.HPos{Index: i, Height: h}] = v
		}
	}
	yp := ref.HyperPath{}
	if p.HyperProof != nil {
		for k, v := range p.HyperProof.AuditPath {
			yp[k] = v
		}
	}
	return hp, yp
}

func checkMembership(r *ev.Run, c Case, step int, d *hx.Driver, lg *ref.Log, e []byte, q uint64, useCurrent bool) {
	cur := lg.Len() - 1
	var p *balloon.MembershipProof
	call := "QueryDigestMembershipConsistency"
	if useCurrent {
		call = "QueryDigestMembership"
	}
	more := map[string]interface{}{"event": fmt.Sprintf("%x", e), "q": q, "current": cur, "call": call}
	pn, msg := ev.Catch(func() {
		var err error
		if useCurrent {
			p, err = d.B.QueryDigestMembership(e)
		} else {
			p, err = d.B.QueryDigestMembershipConsistency(e, q)
		}
		if err != nil {
			panic("error: " + err.Error())
		}
	})
	r.Eval(1)
	if pn {
		viol(r, call+" fails for an added event: "+normPanic(stripNums(msg)), c, step, more)
		return
	}
	if !p.Exists {
		viol(r, call+" answers Exists=false for an added event", c, step, more)
		return
	}
	if !contains(lg.Versions(e), p.ActualVersion) || p.ActualVersion > q {
		more["actual"] = p.ActualVersion
		viol(r, call+" names a version at which the event was not inserted", c, step, more)
		return
	}
	if p.CurrentVersion != cur || p.QueryVersion != q {
		more["proofCurrent"], more["proofQuery"] = p.CurrentVersion, p.QueryVersion
		viol(r, call+" reports wrong current/query version", c, step, more)
		return
	}
	snap := &balloon.Snapshot{EventDigest: e, HistoryDigest: d.Snaps[q].HistoryDigest, HyperDigest: d.Snaps[cur].HyperDigest, Version: q}
	var direct, wired bool
	pn, msg = ev.Catch(func() {
		direct = p.DigestVerify(e, snap)
		w, _, err := hx.WireMembership(p)
		if err != nil {
			panic("error: " + err.Error())
		}
		wired = w.DigestVerify(e, snap)
	})
	if pn {
		viol(r, "client verifier fails on a genuine proof: "+normPanic(stripNums(msg)), c, step, more)
		return
	}
	hp, yp := toRefPath(p)
	refH := ref.VerifyMembership(hp, p.ActualVersion, q, e, snap.HistoryDigest)
	refY := ref.VerifyHyper(yp, e, p.ActualVersion, snap.HyperDigest)
	if !direct {
		viol(r, "genuine membership proof rejected by DigestVerify (in-process)", c, step, more)
	}
	if !wired {
		viol(r, "genuine membership proof rejected by DigestVerify after the JSON round trip", c, step, more)
	}
	if !refH {
		viol(r, "genuine history audit path does not recompute the snapshot's history digest (reference verifier)", c, step, more)
	}
	if !refY {
		viol(r, "genuine hyper audit path does not recompute the snapshot's hyper digest (reference verifier)", c, step, more)
	}
	r.Distinct(fmt.Sprintf("n=%d i=%d q=%d leafH=%d", cur+1, p.ActualVersion, q, 256-len(p.HyperProof.AuditPath)))
	r.Outcome(fmt.Sprintf("hist=%d hyper=%d", len(hp), len(yp)))
}

func stripNums(s string) string {
	var b strings.Builder
	for _, ch := range s {
		if ch >= '0' && ch <= '9' {
			b.WriteByte('#')
		} else {
			b.WriteRune(ch)
		}
	}
	return strings.ReplaceAll(strings.ReplaceAll(b.String(), "####", "#"), "##", "#")
}

func oracleC01(r *ev.Run, c Case, step int, d *hx.Driver, lg *ref.Log, newSnaps []*balloon.Snapshot, final bool) {
	if c.LongN > 0 && !final {
		return
	}
	cur := lg.Len() - 1
	seen := map[string]bool{}
	for _, e := range lg.D {
		if seen[string(e)] {
			continue
		}
		seen[string(e)] = true
		first := lastVersion(lg, e)
		for q := first; q <= cur; q++ {
			if c.LongN > 300 && q != first && q != cur && (q-first)%61 != 0 {
				continue // the large-bulk case is about LRU eviction, not about all pairs
			}
			checkMembership(r, c, step, d, lg, e, q, false)
		}
		checkMembership(r, c, step, d, lg, e, cur, true)
	}
}

// ---------------------------------------------------------------- C04 oracle

func oracleC04(r *ev.Run, c Case, step int, d *hx.Driver, lg *ref.Log, newSnaps []*balloon.Snapshot, final bool) {
	base := lg.Len() - uint64(len(newSnaps))
	distinct := !hasRepeat(lg.D)
	for i, s := range newSnaps {
		v := base + uint64(i)
		r.Eval(1)
		more := map[string]interface{}{"version": v}
		if s.Version != v || !bytes.Equal(s.EventDigest, lg.D[v]) {
			viol(r, "snapshot carries the wrong version or event digest", c, step, more)
		}
		want := ref.HistoryRoot(lg.D, v)
		if !bytes.Equal(s.HistoryDigest, want) {
			viol(r, "history digest differs from the reference history tree root", c, step, more)
		}
		r.Distinct(fmt.Sprintf("hist v=%d", v))
	}
	if distinct {
		want := ref.HyperRoot(lg.HyperMapLatest(lg.Len() - 1))
		got := newSnaps[len(newSnaps)-1].HyperDigest
		r.Eval(1)
		if !bytes.Equal(got, want) {
			viol(r, "hyper digest differs from the reference sparse Merkle tree root", c, step, nil)
		}
		for _, s := range newSnaps {
			if !bytes.Equal(s.HyperDigest, got) {
				viol(r, "snapshots of one bulk carry different hyper digests", c, step, nil)
			}
		}
		r.Distinct(fmt.Sprintf("hyper %x", want[:6]))
		r.Outcome(fmt.Sprintf("%x", want[:8]))
	}
	if !final {
		return
	}
	// a version's history digest re-derived later from the store never changes
	cur := lg.Len() - 1
	for v := uint64(0); v <= cur; v++ {
		if c.LongN > 0 && v%7 != 0 && v != cur {
			continue
		}
		pn, msg := ev.Catch(func() {
			p, err := d.B.QueryConsistency(v, cur)
			if err != nil {
				panic("error: " + err.Error())
			}
			hp := ref.HPath{}
			for k, x := range p.AuditPath.Serialize() {
				var i uint64
				var h uint16
				fmt.Sscanf(k, "%d|%d", &i, &h)
				hp[ref.HPos{Index: i, Height: h}] = x
			}
			r.Eval(1)
			if !ref.VerifyIncremental(hp, v, cur, d.Snaps[v].HistoryDigest, d.Snaps[cur].HistoryDigest) {
				viol(r, "history digest of an issued version cannot be re-derived from the store later", c, step, map[string]interface{}{"version": v})
			}
		})
		if pn {
			viol(r, "re-deriving an old history digest fails: "+normPanic(stripNums(msg)), c, step, map[string]interface{}{"version": v})
		}
	}
	// the in-memory hyper cache equals what a rebuild from storage produces
	if c.Backend == hx.Rocks && distinct {
		live := hx.HashMap(d.B.VerifHyperCacheDump(lg.D))
		pn, msg := ev.Catch(func() {
			if err := d.Reopen(); err != nil {
				panic("error: " + err.Error())
			}
		})
		if pn {
			viol(r, "close+reopen of the balloon fails ("+string(c.Backend)+"): "+normPanic(msg), c, step, nil)
			return
		}
		re := hx.HashMap(d.B.VerifHyperCacheDump(lg.D))
		r.Eval(1)
		if live != re {
			viol(r, "in-memory hyper batch cache differs from the one rebuilt from storage", c, step, nil)
		}
	}
}

// ---------------------------------------------------------------- case generation

func cases(r *ev.Run, forC04 bool) []Case {
	var out []Case
	add := func(names []string, comp []int, be hx.Backend, cache uint16, restart int, fb bool) {
		out = append(out, Case{Names: names, Comp: comp, Backend: be, Cache: cache, RestartAt: restart, ForceBulk: fb})
	}
	type sub struct {
		names  []string
		maxLen int
	}
	var subs []sub
	if r.Thorough() {
		subs = []sub{
			{[]string{"X", "Y255", "Y254", "Y128", "Z", "Y24"}, 6},
			{[]string{"X", "Y23", "Y24", "Y27", "Y28", "T"}, 5},
			{[]string{"X", "Y31", "Y32", "Sa", "Z255", "Z"}, 5},
			{[]string{"Z", "Z255", "T", "Sa", "Sb"}, 5},
		}
	} else {
		subs = []sub{
			{[]string{"X", "Y255", "Y254", "Y128", "Z"}, 4},
			{[]string{"X", "Y23", "Y24", "Y27", "Y28"}, 4},
			{[]string{"X", "Y31", "Y32", "Sa", "Z255"}, 3},
		}
	}
	for si, s := range subs {
		for _, arr := range hx.Arrangements(len(s.names), 1, s.maxLen) {
			names := make([]string, len(arr))
			for i, a := range arr {
				names[i] = s.names[a]
			}
			for _, comp := range hx.Compositions(len(names)) {
				add(names, comp, hx.BPlus, 300, -1, false)
				if forC04 {
					maxPart := 0
					for _, p := range comp {
						if p > maxPart {
							maxPart = p
						}
					}
					if maxPart == 1 {
						add(names, comp, hx.BPlus, 2, -1, false)
					}
					if maxPart <= 3 && si == 0 {
						add(names, comp, hx.BPlus, 8, -1, false)
					}
				}
			}
			// groups of one through AddBulk
			if len(names) <= 3 {
				ones := make([]int, len(names))
				for i := range ones {
					ones[i] = 1
				}
				add(names, ones, hx.BPlus, 300, -1, true)
			}
			// RocksDB back-end + every restart point, on the shorter sequences
			rl := 3
			if r.Thorough() {
				rl = 4
			}
			if len(names) <= rl && si <= 1 {
				for _, comp := range hx.Compositions(len(names)) {
					add(names, comp, hx.Rocks, 300, -1, false)
					if forC04 {
						for k := 1; k < len(comp); k++ {
							add(names, comp, hx.Rocks, 300, k, false)
						}
					}
				}
			}
		}
	}
	// one repeated event (C01 only demands proofs from its last reported version on)
	rep := [][]string{{"X", "X"}, {"X", "Y255", "X"}, {"X", "Y255", "Y255"}, {"Y255", "X", "Z", "X"}, {"X", "Y24", "Y24", "Z"}, {"X", "Z", "Y128", "X"}}
	for _, names := range rep {
		for _, comp := range hx.Compositions(len(names)) {
			add(names, comp, hx.BPlus, 300, -1, false)
		}
	}
	// long logs where only n matters
	longs := []int{70}
	if r.Thorough() {
		longs = []int{70, 130, 257}
	}
	for _, n := range longs {
		ones := make([]int, n)
		for i := range ones {
			ones[i] = 1
		}
		out = append(out, Case{LongN: n, Comp: ones, Backend: hx.BPlus, Cache: 300, RestartAt: -1})
		out = append(out, Case{LongN: n, Comp: []int{n}, Backend: hx.BPlus, Cache: 300, RestartAt: -1})
		out = append(out, Case{LongN: n, Comp: []int{n/2 + 1, n - n/2 - 1}, Backend: hx.BPlus, Cache: 300, RestartAt: -1})
	}
	// more than one page (1000) of recovery tiles, then a restart, then one more insertion (C04 only)
	if forC04 {
		out = append(out, Case{LongN: 1101, Comp: []int{550, 550, 1}, Backend: hx.Rocks, Cache: 300, RestartAt: 2})
		if r.Thorough() {
			out = append(out, Case{LongN: 2301, Comp: []int{1150, 1150, 1}, Backend: hx.Rocks, Cache: 300, RestartAt: 2})
		}
	}
	// a bulk large enough to evict not-yet-persisted history nodes from the LRU (capacity 300)
	bulkN := 700
	if r.Thorough() {
		bulkN = 2100
	}
	out = append(out, Case{LongN: bulkN, Comp: []int{bulkN}, Backend: hx.BPlus, Cache: 300, RestartAt: -1})
	return out
}

func runAll(t *testing.T, id string, o oracle, forC04 bool, rule string) {
	debug.SetGCPercent(50)
	r := ev.Begin(id)
	r.Rule(rule)
	r.Assume("SHA-256 collision resistance; crypto/sha256 is trusted", "digests are drawn from a crafted alphabet that reaches every structural branch (shared prefixes of 0,23,24,27,28,31,32,128,254,255 bits); other bit patterns are not explored",
		"the RocksDB wrapper is ported to librocksdb 7.8 in the scratch tree (DESIGN §2.1)")
	var cs []Case
	if r.Replay != "" {
		var doc struct {
			Detail struct {
				Case Case `json:"case"`
			} `json:"detail"`
		}
		b, err := os.ReadFile(r.Replay)
		if err != nil {
			t.Fatal(err)
		}
		if err := json.Unmarshal(b, &doc); err != nil {
			t.Fatal(err)
		}
		cs = []Case{doc.Detail.Case}
	} else {
		cs = cases(r, forC04)
	}
	r.Bound("cases", len(cs))
	var done int64
	ev.ParallelFor(len(cs), runtime.NumCPU(), func(i int) {
		if !r.Mine(i) {
			return
		}
		if r.OutOfTime() {
			r.Capped("internal deadline reached")
			return
		}
		runCase(r, cs[i], o)
		if i%97 == 0 {
			r.Sample(cs[i])
		}
		if n := atomic.AddInt64(&done, 1); n%64 == 0 {
			debug.FreeOSMemory()
		}
	})
	r.Bound("cases_run", done)
	r.Finish()
	if r.NumViolations() > 0 {
		t.Logf("%d violation signatures", r.NumViolations())
	}
}

func TestC01(t *testing.T) {
	runAll(t, "C01", oracleC01, false,
		"case = (ordered digest sequence over a crafted sub-alphabet, composition into Add/AddBulk groups, back-end); after every group every (event, query version) pair from the event's last reported version to current is queried and verified by the real verifier (in-process and after the JSON round trip) and by the reference verifier; distinct = distinct (log size, leaf index, query version, hyper shortcut height) proof shapes")
}

func TestC04(t *testing.T) {
	runAll(t, "C04", oracleC04, true,
		"case = (digest sequence, composition, history-LRU capacity, back-end, restart point); every snapshot's digests are compared with the independent reference history/sparse-Merkle roots; distinct = distinct (version) history roots and distinct hyper key sets checked")
}
