//go:build verif

// Package c13: proofs, snapshots, commands and gossip messages survive their wire formats.
package c13

import (
	"bytes"
	"encoding/json"
	"fmt"
	"reflect"
	"testing"

	"github.com/bbva/qed/balloon"
	"github.com/bbva/qed/balloon/history"
	"github.com/bbva/qed/consensus"
	"github.com/bbva/qed/crypto/hashing"
	"github.com/bbva/qed/gossip"
	"github.com/bbva/qed/protocol"
	"github.com/bbva/qed/verifx/ev"
	"github.com/bbva/qed/verifx/hx"
)

type cs struct {
	What string      `json:"what"`
	N    int         `json:"n,omitempty"`
	I    uint64      `json:"i"`
	J    uint64      `json:"j"`
	Arg  interface{} `json:"arg,omitempty"`
}

func verdictM(p *balloon.MembershipProof, d []byte, s *balloon.Snapshot) string {
	var ok bool
	pn, _ := ev.Catch(func() { ok = p.DigestVerify(d, s) })
	if pn {
		return "panic"
	}
	return fmt.Sprint(ok)
}

func verdictI(p *balloon.IncrementalProof, a, b *balloon.Snapshot) string {
	var ok bool
	pn, _ := ev.Catch(func() { ok = p.Verify(a, b) })
	if pn {
		return "panic"
	}
	return fmt.Sprint(ok)
}

func TestC13(t *testing.T) {
	r := ev.Begin("C13")
	r.Rule("every genuine membership answer (e,q) and incremental answer (i,j) of a log of n events is encoded to the public JSON form and decoded back: every field must be equal and the decoded proof must give the same verdict as the original for every digest of the alphabet and every authentic and wrong snapshot; synthetic audit paths with extreme position indexes/heights; snapshots, signed batches, replicated commands, fsm state/snapshot/metadata and gossip messages through their binary codecs; distinct = distinct (kind, case) round trips")
	r.Assume("encoding/json and go-msgpack are trusted; fidelity of QED's translation layer around them is what is checked")
	N := 16
	if r.Thorough() {
		N = 40
	}
	r.Bound("n", N)
	d, err := hx.NewDriver(hx.BPlus, "", 300)
	if err != nil {
		t.Fatal(err)
	}
	defer d.Close()
	digs := make([][]byte, N)
	for i := range digs {
		digs[i] = hx.SeqDigest(i)
		if i%5 == 3 { // a few crafted digests with long shared prefixes in the middle of the log
			digs[i] = hx.ByName([]string{"X", "Y255", "Y24", "Y128", "Z", "Y254", "Y27", "T"}[(i/5)%8])[0].D
		}
	}
	for i := 0; i < N; i += 2 {
		k := 2
		if i+k > N {
			k = N - i
		}
		if _, err := d.Apply(digs[i:i+k], false); err != nil {
			t.Fatal(err)
		}
	}
	cur := uint64(N - 1)
	probeDigests := append([][]byte{}, digs...)
	probeDigests = append(probeDigests, hx.SeqDigest(999999), hx.ByName("Sa")[0].D)

	// ---- membership answers
	for e := 0; e < N; e++ {
		for q := uint64(e); q <= cur; q++ {
			p, err := d.B.QueryDigestMembershipConsistency(digs[e], q)
			if err != nil {
				r.Violation("genuine membership query fails: "+err.Error(), cs{What: "membership", N: N, I: uint64(e), J: q})
				continue
			}
			mr := protocol.ToMembershipResult([]byte("key"), p)
			b, err := json.Marshal(mr)
			var back protocol.MembershipResult
			if err == nil {
				err = json.Unmarshal(b, &back)
			}
			r.Eval(1)
			c := cs{What: "membership", N: N, I: uint64(e), J: q}
			if err != nil {
				r.Violation("membership answer does not survive JSON: "+err.Error(), c)
				continue
			}
			w := protocol.ToBalloonProof(&back, hashing.NewSha256Hasher)
			if w.Exists != p.Exists || w.CurrentVersion != p.CurrentVersion || w.QueryVersion != p.QueryVersion || w.ActualVersion != p.ActualVersion || !bytes.Equal(w.KeyDigest, p.KeyDigest) {
				r.Violation("membership answer: scalar field changed by the wire round trip", c)
			}
			if !reflect.DeepEqual(map[string]hashing.Digest(w.HyperProof.AuditPath), map[string]hashing.Digest(p.HyperProof.AuditPath)) || !bytes.Equal(w.HyperProof.Key, p.HyperProof.Key) {
				r.Violation("membership answer: hyper audit path or key changed by the wire round trip", c)
			}
			if !reflect.DeepEqual(w.HistoryProof.AuditPath, p.HistoryProof.AuditPath) || w.HistoryProof.Index != p.HistoryProof.Index || w.HistoryProof.Version != p.HistoryProof.Version {
				r.Violation("membership answer: history audit path / index / version changed by the wire round trip", c)
			}
			// same verdict for every digest and every snapshot pair on the diagonal + current
			for di, pd := range probeDigests {
				if di != e && (di+int(q))%4 != 0 {
					continue
				}
				for a := 0; a < N; a++ {
					s := &balloon.Snapshot{HistoryDigest: d.Snaps[a].HistoryDigest, HyperDigest: d.Snaps[cur].HyperDigest}
					if v1, v2 := verdictM(p, pd, s), verdictM(w, pd, s); v1 != v2 {
						r.Violation("membership answer: verdict differs before/after the wire round trip", cs{What: "membership", N: N, I: uint64(e), J: q, Arg: fmt.Sprintf("digest#%d snapshot %d: %s vs %s", di, a, v1, v2)})
					}
					s2 := &balloon.Snapshot{HistoryDigest: d.Snaps[q].HistoryDigest, HyperDigest: d.Snaps[a].HyperDigest}
					if v1, v2 := verdictM(p, pd, s2), verdictM(w, pd, s2); v1 != v2 {
						r.Violation("membership answer: verdict differs before/after the wire round trip", cs{What: "membership", N: N, I: uint64(e), J: q, Arg: fmt.Sprintf("digest#%d hyper snapshot %d: %s vs %s", di, a, v1, v2)})
					}
					r.Eval(2)
				}
			}
			s := &balloon.Snapshot{HistoryDigest: d.Snaps[q].HistoryDigest, HyperDigest: d.Snaps[cur].HyperDigest}
			if verdictM(w, digs[e], s) != "true" {
				r.Violation("membership answer: decoded genuine proof no longer verifies", c)
			}
			r.Distinct(fmt.Sprintf("m %d %d", e, q))
		}
	}
	// ---- incremental answers
	for j := uint64(0); j <= cur; j++ {
		for i := uint64(0); i <= j; i++ {
			p, err := d.B.QueryConsistency(i, j)
			c := cs{What: "incremental", N: N, I: i, J: j}
			if err != nil {
				r.Violation("genuine incremental query fails: "+err.Error(), c)
				continue
			}
			w, _, err := hx.WireIncremental(p)
			r.Eval(1)
			if err != nil {
				r.Violation("incremental answer does not survive JSON: "+err.Error(), c)
				continue
			}
			if w.Start != p.Start || w.End != p.End || !reflect.DeepEqual(w.AuditPath, p.AuditPath) {
				r.Violation("incremental answer: field changed by the wire round trip", c)
			}
			for a := uint64(0); a <= cur; a++ {
				for _, pair := range [][2]uint64{{a, j}, {i, a}} {
					sa, sb := d.Snaps[pair[0]], d.Snaps[pair[1]]
					if v1, v2 := verdictI(p, sa, sb), verdictI(w, sa, sb); v1 != v2 {
						r.Violation("incremental answer: verdict differs before/after the wire round trip", cs{What: "incremental", N: N, I: i, J: j, Arg: fmt.Sprint(pair, v1, v2)})
					}
					r.Eval(1)
				}
			}
			if verdictI(w, d.Snaps[i], d.Snaps[j]) != "true" {
				r.Violation("incremental answer: decoded genuine proof no longer verifies", c)
			}
			r.Distinct(fmt.Sprintf("i %d %d", i, j))
		}
	}
	// ---- synthetic audit paths with extreme positions
	idxs := []uint64{0, 1, 1 << 31, 1 << 32, 1 << 62, 1<<63 - 1}
	hs := []uint16{0, 1, 63, 64, 65535}
	for _, ix := range idxs {
		for _, h := range hs {
			ap := history.AuditPath{}
			var k [10]byte
			for b := 0; b < 8; b++ {
				k[b] = byte(ix >> uint(56-8*b))
			}
			k[8], k[9] = byte(h>>8), byte(h)
			ap[k] = hashing.Digest{1, 2, 3}
			back := history.ParseAuditPath(ap.Serialize())
			r.Eval(1)
			if !reflect.DeepEqual(back, ap) {
				r.Violation("audit-path position key does not survive Serialize/ParseAuditPath", cs{What: "position", I: ix, J: uint64(h)})
			}
			r.Distinct(fmt.Sprintf("pos %d %d", ix, h))
		}
	}
	// ---- snapshots and signed batches
	for n := 0; n <= 3; n++ {
		b := &protocol.BatchSnapshots{}
		for k := 0; k < n; k++ {
			s := protocol.Snapshot(*d.Snaps[k])
			b.Snapshots = append(b.Snapshots, &protocol.SignedSnapshot{Snapshot: &s, Signature: bytes.Repeat([]byte{byte(k + 1)}, 64)})
			enc, err := s.Encode()
			var s2 protocol.Snapshot
			if err == nil {
				err = s2.Decode(enc)
			}
			r.Eval(1)
			if err != nil || !reflect.DeepEqual(s, s2) {
				r.Violation("snapshot does not survive Encode/Decode", cs{What: "snapshot", I: uint64(k)})
			}
		}
		enc, err := b.Encode()
		var b2 protocol.BatchSnapshots
		if err == nil {
			err = b2.Decode(enc)
		}
		r.Eval(1)
		if err != nil || len(b2.Snapshots) != n {
			r.Violation("signed batch does not survive Encode/Decode", cs{What: "batch", I: uint64(n)})
			continue
		}
		for k := range b.Snapshots {
			if !reflect.DeepEqual(b.Snapshots[k], b2.Snapshots[k]) {
				r.Violation("signed batch does not survive Encode/Decode", cs{What: "batch", I: uint64(n)})
			}
		}
		r.Distinct(fmt.Sprintf("batch %d", n))
	}
	// a snapshot with extreme version
	{
		s := protocol.Snapshot{EventDigest: digs[0], HistoryDigest: digs[1], HyperDigest: digs[2], Version: 1<<63 - 1}
		enc, _ := s.Encode()
		var s2 protocol.Snapshot
		s2.Decode(enc)
		r.Eval(1)
		if !reflect.DeepEqual(s, s2) {
			r.Violation("snapshot with a large version does not survive Encode/Decode", cs{What: "snapshot", I: s.Version})
		}
	}
	// ---- replicated commands
	for n := 0; n <= 3; n++ {
		var ds []hashing.Digest
		for k := 0; k < n; k++ {
			ds = append(ds, digs[k])
		}
		data, err := consensus.VerifEncodeAddCommand(ds)
		var out []hashing.Digest
		var id uint8
		if err == nil {
			out, id, err = consensus.VerifDecodeAddCommand(data)
		}
		r.Eval(1)
		ok := err == nil && id == 0 && len(out) == n
		for k := 0; ok && k < n; k++ {
			ok = bytes.Equal(out[k], ds[k])
		}
		if !ok {
			r.Violation("replicated add command does not survive encode/decode", cs{What: "command", I: uint64(n)})
		}
		r.Distinct(fmt.Sprintf("cmd %d", n))
	}
	// several commands encoded before any of them is decoded (what a leader does under concurrent adds and
	// what a lagging follower sees): each must still decode to its own digests, and the bytes handed to
	// raft must not change afterwards
	{
		var encoded [][]byte
		var copies [][]byte
		var want [][]hashing.Digest
		for n := 0; n < 7; n++ {
			var ds []hashing.Digest
			for k := 0; k <= n%3; k++ {
				ds = append(ds, digs[(n+k)%len(digs)])
			}
			data, err := consensus.VerifEncodeAddCommand(ds)
			if err != nil {
				r.Violation("replicated add command cannot be encoded", cs{What: "command-batch", I: uint64(n)})
				continue
			}
			encoded = append(encoded, data)
			copies = append(copies, append([]byte{}, data...))
			want = append(want, ds)
		}
		for n := range encoded {
			r.Eval(1)
			if !bytes.Equal(encoded[n], copies[n]) {
				r.Violation("the bytes of an encoded command change after later commands are encoded", cs{What: "command-batch", I: uint64(n)})
			}
			var out []hashing.Digest
			var err error
			pn, _ := ev.Catch(func() { out, _, err = consensus.VerifDecodeAddCommand(encoded[n]) })
			ok := !pn && err == nil && len(out) == len(want[n])
			for k := 0; ok && k < len(out); k++ {
				ok = bytes.Equal(out[k], want[n][k])
			}
			if !ok {
				r.Violation("a command decoded after later commands were encoded does not yield its own digests", cs{What: "command-batch", I: uint64(n)})
			}
			r.Distinct(fmt.Sprintf("cmdbatch %d", n))
		}
	}
	big := []uint64{0, 1, 255, 256, 1 << 32, 1<<63 - 1, 1 << 63, ^uint64(0)}
	for _, a := range big {
		for _, b := range big {
			for name, f := range map[string]func(uint64, uint64) (uint64, uint64, error){"fsmState": consensus.VerifStateRoundTrip, "fsmSnapshot": consensus.VerifSnapshotRoundTrip, "versionMetadata": consensus.VerifMetadataRoundTrip} {
				x, y, err := f(a, b)
				r.Eval(1)
				if err != nil || x != a || y != b {
					r.Violation(name+" does not survive its msgpack encoding", cs{What: name, I: a, J: b})
				}
			}
			r.Distinct(fmt.Sprintf("state %d %d", a, b))
		}
	}
	// ---- gossip messages
	for _, ttl := range []int{-1, 0, 1, 2, 1 << 31} {
		for _, from := range []*gossip.Peer{nil, gossip.NewPeer("n1", "127.0.0.1", 9100, "auditor")} {
			for _, payload := range [][]byte{nil, {}, {1, 2, 3}, bytes.Repeat([]byte{7}, 5000)} {
				m := &gossip.Message{Kind: gossip.BatchMessageType, From: from, TTL: ttl, Payload: payload}
				enc, err := m.Encode()
				var m2 gossip.Message
				if err == nil {
					err = m2.Decode(enc)
				}
				r.Eval(1)
				same := err == nil && m2.Kind == m.Kind && m2.TTL == m.TTL && bytes.Equal(m2.Payload, m.Payload) && (m2.From == nil) == (m.From == nil)
				if same && m.From != nil {
					same = m2.From.Name == m.From.Name && m2.From.Port == m.From.Port && m2.From.Addr.Equal(m.From.Addr) && m2.From.Meta.Role == m.From.Meta.Role && m2.From.Status == m.From.Status
				}
				if !same {
					r.Violation("gossip message does not survive Encode/Decode", cs{What: "gossip", I: uint64(int64(ttl)), Arg: fmt.Sprintf("from=%v payload=%d", from != nil, len(payload))})
				}
				r.Distinct(fmt.Sprintf("gossip %d %v %d", ttl, from != nil, len(payload)))
			}
		}
	}
	r.Sample(cs{What: "membership", N: N, I: 3, J: cur})
	r.Sample(cs{What: "incremental", N: N, I: 2, J: cur})
	r.Finish()
}
