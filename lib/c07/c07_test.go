//go:build verif

// Package c07: any crash recovers to a prefix of the committed log, each entry applied once.
// A real single-node server (real raft, both RocksDB databases) runs a fixed request history in a
// child process. Every durable write of both stores (the FSM store's Mutate and the raft log store's
// StoreLog/StoreLogs/DeleteRange/Set) has a boundary at entry and at exit; a dry run numbers them
// 1..N and for EVERY k the child SIGKILLs itself at boundary k. The parent restarts the server on the
// same directories, interrogates it and finishes the history. Depth 2: a second kill at every
// boundary of the recovery run.
package c07

import (
	"encoding/json"
	"fmt"
	"os"
	"path/filepath"
	"strings"
	"testing"

	"github.com/bbva/qed/balloon"
	"github.com/bbva/qed/crypto/hashing"
	"github.com/bbva/qed/protocol"
	"github.com/bbva/qed/verifx/ev"
	"github.com/bbva/qed/verifx/nx"
)

func TestMain(m *testing.M) {
	if nx.ChildMain() {
		return
	}
	os.Exit(m.Run())
}

// a step of a history: a request carrying `n` events, or a forced raft snapshot (log compaction)
type step struct {
	n        int  // events in the request (1 = POST /events, >1 = POST /events/bulk)
	snapshot bool // force a raft snapshot instead
}

type history struct {
	Name      string `json:"name"`
	steps     []step
	Trailing0 bool `json:"trailingLogs0"`
}

func (h history) env() []string {
	if h.Trailing0 {
		return []string{"VERIF_TRAILING0=1"}
	}
	return nil
}

func evName(i int) []byte { return []byte(fmt.Sprintf("event-%d", i)) }

// body of step s whose first event has number `first`
func (s step) request(first int) (path string, body []byte) {
	if s.n == 1 {
		b, _ := json.Marshal(protocol.Event{Event: evName(first)})
		return "/events", b
	}
	var evs [][]byte
	for i := 0; i < s.n; i++ {
		evs = append(evs, evName(first+i))
	}
	b, _ := json.Marshal(protocol.EventsBulk{Events: evs})
	return "/events/bulk", b
}

// probe: every membership proof at the current version and at the event's own version, and the
// consistency proofs (0,n-1) and (i,i+1): the full client-visible state of a log of n events.
func probe(c *nx.Child, n int) ([]string, error) {
	var out []string
	for i := 0; i < n; i++ {
		q, _ := json.Marshal(protocol.MembershipQuery{Key: evName(i)})
		res, err := c.HTTP("api", "POST", "/proofs/membership", q)
		if err != nil {
			return out, err
		}
		out = append(out, fmt.Sprintf("membership(%d,current) %d %s", i, res.Status, res.Body))
		v := uint64(i)
		q, _ = json.Marshal(protocol.MembershipQuery{Key: evName(i), Version: &v})
		res, err = c.HTTP("api", "POST", "/proofs/membership", q)
		if err != nil {
			return out, err
		}
		out = append(out, fmt.Sprintf("membership(%d,%d) %d %s", i, i, res.Status, res.Body))
	}
	if n > 0 {
		for i := 0; i < n; i++ {
			q, _ := json.Marshal(protocol.IncrementalRequest{Start: uint64(i), End: uint64(n - 1)})
			res, err := c.HTTP("api", "POST", "/proofs/incremental", q)
			if err != nil {
				return out, err
			}
			out = append(out, fmt.Sprintf("incremental(%d,%d) %d %s", i, n-1, res.Status, res.Body))
		}
	}
	// an event that was never added
	q, _ := json.Marshal(protocol.MembershipQuery{Key: []byte("never-added")})
	res, err := c.HTTP("api", "POST", "/proofs/membership", q)
	if err != nil {
		return out, err
	}
	out = append(out, fmt.Sprintf("membership(never) %d %s", res.Status, res.Body))
	return out, nil
}

type golden struct {
	responses []string          // per step: response body ("" for snapshot steps)
	tables    map[uint64]string // version (= number of events) -> hash of the three tree tables
	probes    map[uint64][]string
	index     map[uint64]uint64 // version -> raft index of the entry that produced it
	total     int               // events
	ready     int64             // boundaries passed when the server reported ready
	n         int64             // boundaries of the whole run
	trace     []string
}

func readTrace(p string) []string {
	b, _ := os.ReadFile(p)
	var out []string
	for _, l := range strings.Split(strings.TrimSpace(string(b)), "\n") {
		if i := strings.IndexByte(l, ' '); i > 0 {
			out = append(out, l[i+1:])
		}
	}
	return out
}

func state(c *nx.Child) (nx.Resp, error) {
	if r, err := c.Do(nx.Req{Op: "barrier"}); err != nil || r.Err != "" {
		if err == nil {
			err = fmt.Errorf("barrier: %s", r.Err)
		}
		return r, err
	}
	return c.Do(nx.Req{Op: "state"})
}

// verifyGolden: the golden answers themselves must verify against the golden snapshots (so that
// "byte-identical to the golden run" implies "verifies against the acknowledged snapshots").
func verifyGolden(r *ev.Run, h history, g *golden) {
	snaps := map[uint64]*balloon.Snapshot{}
	for _, body := range g.responses {
		if body == "" {
			continue
		}
		var one protocol.Snapshot
		var many []*protocol.Snapshot
		if json.Unmarshal([]byte(body), &many) == nil && len(many) > 0 {
			for _, s := range many {
				bs := balloon.Snapshot(*s)
				snaps[s.Version] = &bs
			}
		} else if json.Unmarshal([]byte(body), &one) == nil {
			bs := balloon.Snapshot(one)
			snaps[one.Version] = &bs
		}
	}
	if len(snaps) != g.total {
		r.Violation("the never-crashed server did not acknowledge one snapshot per event", map[string]interface{}{"history": h.Name, "snapshots": len(snaps), "events": g.total})
		return
	}
	for v := 0; v < g.total; v++ {
		if snaps[uint64(v)] == nil {
			r.Violation("the never-crashed server skipped a version", map[string]interface{}{"history": h.Name, "version": v})
			return
		}
	}
	final := g.probes[uint64(g.total)]
	for _, line := range final {
		r.Eval(1)
		f := strings.SplitN(line, " ", 3)
		if len(f) < 3 || f[1] != "200" {
			if strings.HasPrefix(line, "membership(never)") && len(f) >= 2 {
				continue
			}
			r.Violation("the never-crashed server refuses a legitimate query", map[string]interface{}{"history": h.Name, "answer": f[0] + " " + f[1]})
			continue
		}
		var i, q int
		switch {
		case strings.HasPrefix(f[0], "membership(never"):
		case strings.HasPrefix(f[0], "membership("):
			var mr protocol.MembershipResult
			json.Unmarshal([]byte(f[2]), &mr)
			var a string
			fmt.Sscanf(f[0], "membership(%d,%s", &i, &a)
			hist := snaps[mr.QueryVersion]
			cur := snaps[mr.CurrentVersion]
			ok := false
			if hist != nil && cur != nil {
				s := &balloon.Snapshot{EventDigest: hist.EventDigest, HistoryDigest: hist.HistoryDigest, HyperDigest: cur.HyperDigest, Version: mr.QueryVersion}
				ev.Catch(func() { ok = protocol.ToBalloonProof(&mr, hashing.NewSha256Hasher).Verify(evName(i), s) })
			}
			if !ok || !mr.Exists || mr.ActualVersion != uint64(i) {
				r.Violation("a membership proof of the never-crashed server does not verify against its own snapshots", map[string]interface{}{"history": h.Name, "query": f[0]})
			}
		case strings.HasPrefix(f[0], "incremental("):
			fmt.Sscanf(f[0], "incremental(%d,%d)", &i, &q)
			var ir protocol.IncrementalResponse
			json.Unmarshal([]byte(f[2]), &ir)
			ok := false
			ev.Catch(func() {
				ok = protocol.ToIncrementalProof(&ir, hashing.NewSha256Hasher).Verify(snaps[uint64(i)], snaps[uint64(q)])
			})
			if !ok {
				r.Violation("a consistency proof of the never-crashed server does not verify against its own snapshots", map[string]interface{}{"history": h.Name, "query": f[0]})
			}
		}
	}
}

func runGolden(r *ev.Run, h history, base string) *golden {
	db, rf := filepath.Join(base, "g-db"), filepath.Join(base, "g-raft")
	tr := filepath.Join(base, "g-trace-"+strings.ReplaceAll(h.Name, " ", "_"))
	os.Remove(tr)
	c, err := nx.Start(db, rf, append(h.env(), "VERIF_TRACE="+tr)...)
	if err != nil {
		r.Violation("harness: a fresh server does not start: "+err.Error(), nil)
		return nil
	}
	defer func() { c.Kill(); os.RemoveAll(db); os.RemoveAll(rf) }()
	g := &golden{tables: map[uint64]string{}, probes: map[uint64][]string{}, index: map[uint64]uint64{}, ready: c.Ready.Boundaries}
	record := func() bool {
		st, err := c.Do(nx.Req{Op: "state"})
		if err != nil {
			return false
		}
		g.tables[st.Version] = st.Tables
		g.index[st.Version] = st.FsmIndex
		p, err := probe(c, int(st.Version))
		if err != nil {
			return false
		}
		g.probes[st.Version] = p
		return true
	}
	if !record() {
		r.Violation("harness: the never-crashed server died", h)
		return nil
	}
	events := 0
	for _, s := range h.steps {
		if s.snapshot {
			res, err := c.Do(nx.Req{Op: "snapshot"})
			if err != nil || res.Err != "" {
				r.Violation("harness: forced raft snapshot failed on the never-crashed server: "+res.Err, h)
				return nil
			}
			g.responses = append(g.responses, "")
			g.n = res.Boundaries
			continue
		}
		path, body := s.request(events)
		res, err := c.HTTP("api", "POST", path, body)
		if err != nil || res.Status != 201 {
			r.Violation("the never-crashed server fails on a plain add", map[string]interface{}{"history": h.Name, "status": res.Status, "panic": res.Panic})
			return nil
		}
		events += s.n
		g.responses = append(g.responses, string(res.Body))
		g.n = res.Boundaries
		if !record() {
			r.Violation("harness: the never-crashed server died", h)
			return nil
		}
	}
	g.total = events
	g.trace = readTrace(tr)
	if int64(len(g.trace)) < g.n {
		r.Violation("harness: boundary trace shorter than the boundary counter", h)
		return nil
	}
	g.trace = g.trace[:g.n]
	verifyGolden(r, h, g)
	return g
}

type kcase struct {
	History string `json:"history"`
	K1      int64  `json:"killAtBoundary"`
	K2      int64  `json:"secondKillAtRecoveryBoundary,omitempty"`
	Where   string `json:"where,omitempty"`
}

// drive runs the remaining history on c starting at step `from` with `events` already in the log.
// It returns the index of the step during which the server died (-1 if it survived) and the number
// of events acknowledged.
func drive(r *ev.Run, h history, g *golden, c *nx.Child, from, events int, kc kcase, compare bool) (diedAt int, acked int, ok bool) {
	for si := from; si < len(h.steps); si++ {
		s := h.steps[si]
		if s.snapshot {
			res, err := c.Do(nx.Req{Op: "snapshot"})
			if err != nil {
				return si, events, true
			}
			_ = res
			continue
		}
		path, body := s.request(events)
		res, err := c.HTTP("api", "POST", path, body)
		if err != nil {
			return si, events, true
		}
		r.Eval(1)
		if res.Status != 201 {
			r.Violation(fmt.Sprintf("after a crash and restart a plain add is answered with status %d", res.Status), kc)
			return -1, events, false
		}
		if compare && string(res.Body) != g.responses[si] {
			r.Violation("a snapshot issued after crash recovery differs from the one a never-crashed server issues for the same event", map[string]interface{}{"case": kc, "step": si})
			return -1, events, false
		}
		events += s.n
	}
	return -1, events, true
}

// recoverAndCheck restarts the server on (db, rf) with the given extra env, and checks the recovered
// state. Returns the child, the step to resume at and the events in the log; ok=false if the run
// ended (violation recorded or second kill happened: died=true).
func recoverAndCheck(r *ev.Run, h history, g *golden, db, rf string, diedAt, acked int, kc kcase, extra ...string) (c *nx.Child, resume, events int, died, ok bool) {
	c, err := nx.Start(db, rf, append(h.env(), extra...)...)
	if err != nil {
		if len(extra) > 0 && strings.Contains(err.Error(), "child did not come up") {
			return nil, 0, 0, true, true // killed again during start-up
		}
		r.Violation("after a crash the server does not come up again on its data", map[string]interface{}{"case": kc, "error": lastLine(err.Error())})
		return nil, 0, 0, false, false
	}
	st, err := state(c)
	if err != nil {
		if len(extra) > 0 {
			c.Kill()
			return nil, 0, 0, true, true
		}
		r.Violation("after a crash the restarted server dies or wedges while recovering", map[string]interface{}{"case": kc, "stderr": lastLine(c.Stderr())})
		c.Kill()
		return nil, 0, 0, false, false
	}
	r.Eval(1)
	inflight := 0
	if diedAt >= 0 && !h.steps[diedAt].snapshot {
		inflight = h.steps[diedAt].n
	}
	v := int(st.Version)
	switch {
	case v == acked:
		resume = diedAt
	case v == acked+inflight:
		resume = diedAt + 1
	default:
		r.Violation(fmt.Sprintf("after a crash the log holds a number of events that is neither the acknowledged ones nor those plus the request in flight (acknowledged %d, in flight %d)", acked, inflight), map[string]interface{}{"case": kc, "version": v})
		c.Kill()
		return nil, 0, 0, false, false
	}
	if diedAt < 0 {
		resume = len(h.steps)
	}
	if st.FsmVersion+1 != st.Version && !(st.Version == 0 && st.FsmVersion == 0) {
		r.Violation("after a crash the persisted applied-state and the tree version disagree", map[string]interface{}{"case": kc, "treeVersion": st.Version, "fsmVersion": st.FsmVersion})
	}
	// an acknowledged request is a committed entry of the replicated log: the log cannot be shorter
	// than it was when the last acknowledged request was answered
	if st.RaftLast < g.index[uint64(acked)] {
		r.Violation("after a crash the replicated log no longer holds the entries of acknowledged requests", map[string]interface{}{"case": kc, "raftLastIndex": st.RaftLast, "indexOfLastAcknowledgedEntry": g.index[uint64(acked)]})
	}
	if want, okk := g.tables[st.Version]; !okk || want != st.Tables {
		r.Violation("after a crash the stored trees are not those of a prefix of the committed log applied exactly once", map[string]interface{}{"case": kc, "version": v})
		c.Kill()
		return nil, 0, 0, false, false
	}
	p, err := probe(c, v)
	if err != nil {
		if len(extra) > 0 {
			c.Kill()
			return nil, 0, 0, true, true
		}
		r.Violation("after a crash the restarted server dies while answering queries", map[string]interface{}{"case": kc, "stderr": lastLine(c.Stderr())})
		c.Kill()
		return nil, 0, 0, false, false
	}
	want := g.probes[st.Version]
	for i := range want {
		r.Eval(1)
		if i >= len(p) || p[i] != want[i] {
			what := strings.SplitN(want[i], " ", 2)[0]
			what = what[:strings.IndexByte(what, '(')]
			r.Violation("after a crash a "+what+" answer for already acknowledged events differs from the never-crashed server's (which verifies against the acknowledged snapshots)", map[string]interface{}{"case": kc, "query": strings.SplitN(want[i], " ", 2)[0]})
			c.Kill()
			return nil, 0, 0, false, false
		}
	}
	return c, resume, v, false, true
}

func lastLine(s string) string {
	for _, l := range strings.Split(s, "\n") {
		if strings.HasPrefix(l, "panic:") || strings.HasPrefix(l, "fatal error:") || strings.Contains(l, "Assertion") {
			return l
		}
	}
	s = strings.TrimSpace(s)
	if i := strings.LastIndexByte(s, '\n'); i >= 0 {
		s = s[i+1:]
	}
	if len(s) > 200 {
		s = s[len(s)-200:]
	}
	return s
}

// one kill case. Returns the number of boundaries the recovery run passed (for depth 2).
func killCase(r *ev.Run, h history, g *golden, base string, kc kcase) (recoveryBoundaries int64) {
	dir := filepath.Join(base, fmt.Sprintf("%s-k%d-%d", h.Name, kc.K1, kc.K2))
	db, rf, tr := filepath.Join(dir, "db"), filepath.Join(dir, "raft"), filepath.Join(dir, "trace")
	os.MkdirAll(dir, 0755)
	defer os.RemoveAll(dir)
	c, err := nx.Start(db, rf, append(h.env(), fmt.Sprintf("KILL_AT=%d", kc.K1), "VERIF_TRACE="+tr)...)
	diedAt, acked := -2, 0
	if err != nil {
		if kc.K1 > g.ready {
			r.Violation("harness: server did not start although the kill point is after start-up", map[string]interface{}{"case": kc, "error": lastLine(err.Error())})
			return
		}
		diedAt = -3 // killed during bootstrap
	} else {
		diedAt, acked, _ = drive(r, h, g, c, 0, 0, kc, true)
		c.Kill()
		if diedAt == -1 {
			r.Violation("harness: the kill point was never reached (boundary numbering is not deterministic)", kc)
			return
		}
	}
	// the kill run must have followed the dry run's boundary sequence
	got := readTrace(tr)
	for i := range got {
		if i >= len(g.trace) || got[i] != g.trace[i] {
			r.Violation("harness: boundary sequence of the kill run deviates from the dry run (nondeterminism)", map[string]interface{}{"case": kc, "at": i, "killRunTrace": got, "dryRunTrace": g.trace})
			return
		}
	}
	if diedAt == -3 {
		// a kill while the cluster is being bootstrapped: nothing was ever committed; the only demand
		// is that what comes up (if raft's own bootstrap lets it) is an empty log. Not enumerated further.
		c2, err := nx.Start(db, rf, h.env()...)
		if err != nil {
			r.Extra("bootstrap_kills_not_restartable", 1)
			return
		}
		st, err := state(c2)
		if err == nil && st.Version != 0 {
			r.Violation("a server killed during bootstrap comes up with a non-empty log", kc)
		}
		c2.Kill()
		return
	}
	var extra []string
	tr2 := filepath.Join(dir, "trace2")
	if kc.K2 > 0 {
		extra = []string{fmt.Sprintf("KILL_AT=%d", kc.K2)}
	} else {
		extra = nil
	}
	c2, resume, events, died, ok := recoverAndCheck(r, h, g, db, rf, diedAt, acked, kc, append(extra, "VERIF_TRACE="+tr2)...)
	if !ok {
		return
	}
	if !died {
		d2, acked2, ok2 := drive(r, h, g, c2, resume, events, kc, true)
		if !ok2 {
			c2.Kill()
			return
		}
		if d2 >= 0 {
			if kc.K2 == 0 {
				r.Violation("the restarted server dies while finishing the history", map[string]interface{}{"case": kc, "stderr": lastLine(c2.Stderr())})
				c2.Kill()
				return
			}
			died, diedAt, acked = true, d2, acked2
		}
	}
	if died {
		if c2 != nil {
			c2.Kill()
		}
		if kc.K2 == 0 {
			return
		}
		// second recovery, no more kills. What was acknowledged so far: `acked` before the first kill
		// (and whatever the second run acknowledged, tracked in acked/diedAt above when it got that far).
		if c2 == nil {
			// died during start-up or the state check of the second run: the in-flight request of the
			// first kill is still the only uncertainty
		}
		c3, resume3, events3, _, ok3 := recoverAndCheck(r, h, g, db, rf, diedAt, acked, kc)
		if !ok3 {
			return
		}
		c2, resume, events = c3, resume3, events3
		d3, _, ok3b := drive(r, h, g, c2, resume, events, kc, true)
		if !ok3b {
			c2.Kill()
			return
		}
		if d3 >= 0 {
			r.Violation("the restarted server dies while finishing the history", map[string]interface{}{"case": kc, "stderr": lastLine(c2.Stderr())})
			c2.Kill()
			return
		}
	}
	// final state = golden final state
	st, err := state(c2)
	if err != nil && kc.K2 > 0 && !died {
		// the second kill point lies in the barrier entry of this very check: everything was acknowledged;
		// recover once more, without a kill
		c2.Kill()
		died = true
		c3, _, _, _, ok3 := recoverAndCheck(r, h, g, db, rf, len(h.steps)-1, g.total-h.steps[len(h.steps)-1].n, kc)
		if !ok3 {
			return
		}
		c2 = c3
		st, err = state(c2)
	}
	if err != nil {
		r.Violation("the recovered server dies after finishing the history", map[string]interface{}{"case": kc})
		c2.Kill()
		return
	}
	recoveryBoundaries = st.Boundaries
	r.Eval(1)
	if int(st.Version) != g.total || st.Tables != g.tables[uint64(g.total)] {
		r.Violation("after crash recovery and the rest of the history the stored trees differ from the never-crashed server's", map[string]interface{}{"case": kc, "version": st.Version})
		c2.Kill()
		return
	}
	p, err := probe(c2, g.total)
	want := g.probes[uint64(g.total)]
	for i := range want {
		r.Eval(1)
		if err != nil || i >= len(p) || p[i] != want[i] {
			r.Violation("after crash recovery and the rest of the history a proof differs from the never-crashed server's", map[string]interface{}{"case": kc, "query": strings.SplitN(want[i], " ", 2)[0]})
			break
		}
	}
	// a clean shutdown after recovery must work too
	_, code, stderr := c2.Close()
	if code != 0 {
		r.Violation("a server that recovered from a crash cannot be shut down cleanly", map[string]interface{}{"case": kc, "exit": code, "stderr": lastLine(stderr)})
	}
	r.Distinct(fmt.Sprintf("%s/%d/%d", kc.History, kc.K1, kc.K2))
	r.Outcome(fmt.Sprintf("%s died at step %d acked %d resumed at %d", kc.History, diedAt, acked, resume))
	return
}

func histories(thorough bool) []history {
	hs := []history{
		{Name: "adds", steps: []step{{n: 1}, {n: 3}, {n: 1}, {n: 2}, {n: 1}}},
		{Name: "adds+compaction", steps: []step{{n: 1}, {n: 3}, {n: 1}, {snapshot: true}, {n: 2}, {n: 1}}, Trailing0: true},
	}
	if thorough {
		hs = append(hs, history{Name: "two compactions", steps: []step{{n: 2}, {snapshot: true}, {n: 1}, {n: 2}, {snapshot: true}, {n: 1}}, Trailing0: true})
	}
	return hs
}

func TestC07(t *testing.T) {
	r := ev.Begin("C07")
	r.Rule("fixed request histories (single adds, bulks of 2 and 3, forced raft snapshots with full log compaction) on a real single-node server in a child process; a dry run numbers every durable-write boundary (entry and exit of RocksDBStore.Mutate on the FSM store and of StoreLog/StoreLogs/DeleteRange/Set on the raft log store) 1..N; for EVERY k the server SIGKILLs itself at boundary k, is restarted on the same directories and must (a) come up, (b) hold exactly the acknowledged events or those plus the whole request in flight, (c) have tree tables byte-identical to the never-crashed server's at that version, (d) answer every membership and consistency query byte-identically to the never-crashed server (whose answers verify against the acknowledged snapshots), (e) finish the history with byte-identical snapshots, tables and proofs, (f) shut down cleanly; thorough: a second kill at EVERY boundary of the recovery run; distinct = (history, k1, k2) cases completed")
	r.Assume("durable state changes only at the hooked writes and at raft's file snapshot store, and RocksDB's write batch is atomic (trusted base): a SIGKILL at any other instant leaves the durable state of the nearest earlier boundary", "process death only (both stores run without fsync; a machine crash that loses the page cache is outside the model)", "kills before the server reports ready hit raft's own cluster bootstrap; they are run but only required to yield an empty log if the node comes up")
	base := os.Getenv("VERIF_SCRATCH_DIR")
	hs := histories(r.Thorough())
	var replay *kcase
	if r.Replay != "" {
		var rd struct {
			Detail struct {
				Case *kcase `json:"case"`
				kcase
			} `json:"detail"`
		}
		b, _ := os.ReadFile(r.Replay)
		json.Unmarshal(b, &rd)
		if rd.Detail.Case != nil {
			replay = rd.Detail.Case
		} else if rd.Detail.kcase.History != "" {
			k := rd.Detail.kcase
			replay = &k
		}
	}
	for _, h := range hs {
		if replay != nil && replay.History != h.Name {
			continue
		}
		g := runGolden(r, h, base)
		if g == nil {
			continue
		}
		r.Bound("boundaries_"+strings.ReplaceAll(h.Name, " ", "_"), g.n)
		r.Sample(map[string]interface{}{"history": h.Name, "boundary_trace": g.trace})
		if replay != nil {
			killCase(r, h, g, base, *replay)
			continue
		}
		// depth 1
		rec := make([]int64, g.n+1)
		ev.ParallelFor(int(g.n), 8, func(i int) {
			k := int64(i + 1)
			if !r.Mine(i) {
				return
			}
			rec[k] = killCase(r, h, g, base, kcase{History: h.Name, K1: k, Where: g.trace[k-1]})
		})
		if !r.Thorough() {
			continue
		}
		// depth 2: a second kill at every boundary of the recovery run
		var cases []kcase
		for k := g.ready + 1; k <= g.n; k++ {
			for k2 := int64(1); k2 <= rec[k]; k2++ {
				cases = append(cases, kcase{History: h.Name, K1: k, K2: k2, Where: g.trace[k-1]})
			}
		}
		r.Bound("double_kill_cases_"+strings.ReplaceAll(h.Name, " ", "_"), len(cases))
		ev.ParallelFor(len(cases), 8, func(i int) {
			if !r.Mine(i) {
				return
			}
			if r.OutOfTime() {
				r.Capped("time budget reached during the double-kill phase")
				return
			}
			killCase(r, h, g, base, cases[i])
		})
	}
	r.Finish()
}
