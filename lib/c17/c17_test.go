//go:build verif && go1.18

// Package c17: every issued snapshot is emitted once, signed; the signature binds its content.
// The real server.Sender (2 batchers, batch size 2) on a real, un-started gossip.Agent runs under the
// controlled scheduler (server/sender.go and gossip/bus.go are rebuilt with their goroutines,
// channel operations, selects, timers and locks under the scheduler). A feeder pushes k snapshots
// in every split over time; ALL interleavings with a bounded number of preemptions / early timer
// firings are executed; virtual time passes whenever nothing else can run.
package c17

import (
	"encoding/json"
	"fmt"
	"io"
	"os"
	"sort"
	"strings"
	"sync"
	"testing"
	"time"

	"github.com/bbva/qed/balloon/hyper"
	"github.com/bbva/qed/consensus"
	"github.com/bbva/qed/storage"
	"github.com/bbva/qed/storage/bplus"
	"github.com/hashicorp/raft"

	"github.com/bbva/qed/crypto/hashing"
	"github.com/bbva/qed/crypto/sign"
	"github.com/bbva/qed/gossip"
	"github.com/bbva/qed/protocol"
	"github.com/bbva/qed/server"
	"github.com/bbva/qed/verifx/ev"
	"github.com/bbva/qed/verifx/hx"
	"github.com/bbva/qed/verifx/sx"
)

type collector struct {
	ch <-chan *gossip.Message
}

func (c *collector) Subscribe(id int, ch <-chan *gossip.Message) { c.ch = ch }

type scenario struct {
	// Handoff: instead of a feeder writing to the channel, a client calls the real RaftNode.AddBulk with
	// bulks of these sizes on a node whose snapshots channel has ChanCap slots (the hand-off from the
	// insertion path to the sender is part of the property)
	Handoff []int  `json:"handoffBulks,omitempty"`
	ChanCap int    `json:"channelCapacity,omitempty"`
	K       int    `json:"snapshots"`
	Groups  []int  `json:"groups"` // composition of K: snapshots pushed together
	Gaps    string `json:"gaps"`   // per gap between groups: d = wait until taken off the channel, f = wait until everything pushed so far was published (time passes)
	Bound   int    `json:"bound"`
}

func (s scenario) String() string {
	if s.Handoff != nil {
		return fmt.Sprintf("hand-off: AddBulk%v, channel of %d", s.Handoff, s.ChanCap)
	}
	return fmt.Sprintf("k=%d groups=%v gaps=%q", s.K, s.Groups, s.Gaps)
}

// a ManagedStore over the in-memory B+ store for the bare node of the hand-off scenarios
type mstore struct{ *bplus.BPlusTreeStore }

func (mstore) FetchSnapshot(w io.WriteCloser, a, b uint64, v storage.ValidateF) error { return nil }
func (mstore) LoadSnapshot(io.ReadCloser) error                                       { return nil }
func (mstore) LastWALSequenceNumber() uint64                                          { return 0 }

const batchSize = 2

var signer = sign.NewEd25519Signer()

func snapshot(i int) *protocol.Snapshot {
	d := hx.SeqDigest(i)
	return &protocol.Snapshot{EventDigest: hashing.Digest(d), HistoryDigest: hashing.Digest(hx.SeqDigest(100 + i)), HyperDigest: hashing.Digest(hx.SeqDigest(200 + i)), Version: uint64(i)}
}

func body(s scenario) func(x *sx.Exec) {
	return func(x *sx.Exec) {
		var a *gossip.Agent
		var snd *server.Sender
		col := &collector{}
		ch := make(chan *protocol.Snapshot, 64)
		var node *consensus.RaftNode
		want := map[uint64]*protocol.Snapshot{} // hand-off: what AddBulk acknowledged, by version
		if s.Handoff != nil {
			ch = make(chan *protocol.Snapshot, s.ChanCap)
		}
		sx.Setup(func() {
			if s.Handoff != nil {
				var err error
				node, err = consensus.VerifNewBareNode("n0", mstore{bplus.NewBPlusTreeStore()}, getCache(), ch)
				if err != nil {
					panic(err)
				}
				idx := uint64(0)
				node.VerifSetHooks(&consensus.VerifHooks{Propose: func(data []byte) (interface{}, error) {
					idx++
					return node.Apply(&raft.Log{Index: idx, Term: 1, Type: raft.LogCommand, Data: data}), nil
				}})
			}
			conf := gossip.DefaultConfig()
			conf.NodeName, conf.Role, conf.BindAddr = "verif-sender", "server", "127.0.0.1:12398"
			var err error
			a, err = gossip.NewAgentFromConfig(conf)
			if err != nil {
				panic(err)
			}
			a.Out.Subscribe(gossip.BatchMessageType, col, 64)
			snd = server.NewSender(a, signer, batchSize, 2, 2)
		})
		var batches [][]*protocol.SignedSnapshot
		published := func() int {
			n := 0
			for _, b := range batches {
				n += len(b)
			}
			return n
		}
		sx.GoNamed("collector", true, func() {
			for {
				sx.WaitRecv(col.ch)
				m := <-col.ch
				var b protocol.BatchSnapshots
				if err := b.Decode(m.Payload); err != nil {
					x.Fail("a published batch cannot be decoded", err.Error())
					continue
				}
				if m.Kind != gossip.BatchMessageType || m.TTL != 2 {
					x.Fail("a published batch message does not carry the configured kind and time-to-live", m.TTL)
				}
				batches = append(batches, b.Snapshots)
			}
		})
		snd.Start(ch)
		pushed := 0
		if s.Handoff != nil {
			for _, k := range s.Handoff {
				var evs [][]byte
				for j := 0; j < k; j++ {
					evs = append(evs, []byte(fmt.Sprintf("hand-off-event-%d", pushed+j)))
				}
				snaps, err := node.AddBulk(evs)
				if err != nil || len(snaps) != k {
					x.Fail("an insertion fails while its snapshots are handed to the sender", fmt.Sprint(err))
					break
				}
				for _, sn := range snaps {
					ps := protocol.Snapshot(*sn)
					want[ps.Version] = &ps
				}
				pushed += k
			}
		}
		for gi, g := range s.Groups {
			for j := 0; j < g; j++ {
				sx.WaitSend(ch)
				ch <- snapshot(pushed)
				pushed++
			}
			if gi < len(s.Groups)-1 {
				if s.Gaps[gi] == 'f' {
					want := pushed
					sx.Block("feeder waits until everything pushed so far was published", func() bool { return published() >= want })
				} else {
					sx.Block("feeder waits until the channel is drained", func() bool { return len(ch) == 0 })
				}
			}
		}
		// the sender keeps running: everything must come out without further input
		sx.Block("all snapshots published", func() bool { return published() >= s.K })
		sx.Yield("one more look")
		snd.Stop()
		// verdict
		wantH := want
		if node != nil {
			sx.Setup(func() { node.VerifCloseBare() })
		}
		count := map[uint64]int{}
		var shape []string
		for _, b := range batches {
			if len(b) < 1 || len(b) > batchSize {
				x.Fail(fmt.Sprintf("a batch of %d snapshots is published (configured size %d)", len(b), batchSize), nil)
			}
			var vs []string
			for _, ss := range b {
				if ss == nil || ss.Snapshot == nil {
					x.Fail("a batch contains an empty entry", nil)
					continue
				}
				count[ss.Snapshot.Version]++
				vs = append(vs, fmt.Sprint(ss.Snapshot.Version))
				ok, _ := signer.Verify([]byte(fmt.Sprintf("%v", ss.Snapshot)), ss.Signature)
				want := snapshot(int(ss.Snapshot.Version))
				if s.Handoff != nil {
					want = wantByVersion(wantH, ss.Snapshot.Version)
				}
				if !ok {
					x.Fail("a published snapshot carries a signature that does not verify under the server's key", ss.Snapshot.Version)
				}
				if want == nil || fmt.Sprint(*want) != fmt.Sprint(*ss.Snapshot) {
					x.Fail("a published snapshot differs from the one that was issued", ss.Snapshot.Version)
				}
			}
			shape = append(shape, "["+strings.Join(vs, ",")+"]")
		}
		sort.Strings(shape)
		x.Observe(strings.Join(shape, ""))
		for i := 0; i < s.K; i++ {
			switch c := count[uint64(i)]; {
			case c == 0:
				x.Fail("a snapshot handed to the running sender is never published", i)
			case c > 1:
				x.Fail("a snapshot is published more than once", i)
			}
		}
	}
}

func wantByVersion(m map[uint64]*protocol.Snapshot, v uint64) *protocol.Snapshot { return m[v] }

var (
	poolMu sync.Mutex
	pool   []*hyper.BatchCache
)

// hand-off scenarios never recycle a used cache: a fresh one per execution would cost a gigabyte each,
// so one cache per process is reset between executions (the events are the same in every execution)
func getCache() *hyper.BatchCache {
	poolMu.Lock()
	defer poolMu.Unlock()
	if len(pool) == 0 {
		pool = append(pool, hyper.NewBatchCache(hyper.DefaultBatchLevels))
	}
	c := pool[0]
	var keys [][]byte
	for i := 0; i < 8; i++ {
		keys = append(keys, hashing.NewSha256Hasher().Do([]byte(fmt.Sprintf("hand-off-event-%d", i))))
	}
	if !c.VerifReset(keys) {
		panic("c17: the recycled hyper cache is not empty")
	}
	return c
}

func compositions(n int) [][]int { return hx.Compositions(n) }

func scenarios(thorough bool) []scenario {
	maxK, bound := 4, 2
	if thorough {
		maxK, bound = 5, 4
	}
	var out []scenario
	for k := 1; k <= maxK; k++ {
		for _, comp := range compositions(k) {
			gaps := len(comp) - 1
			for m := 0; m < 1<<uint(gaps); m++ {
				g := make([]byte, gaps)
				for i := range g {
					if m&(1<<uint(i)) != 0 {
						g[i] = 'f'
					} else {
						g[i] = 'd'
					}
				}
				b := bound
				out = append(out, scenario{K: k, Groups: comp, Gaps: string(g), Bound: b})
			}
		}
	}
	// the hand-off from the insertion path (real RaftNode.AddBulk on a bare node) into a SMALL channel
	for _, hb := range [][]int{{2}, {3}, {1, 2}, {2, 2}} {
		for _, cc := range []int{1, 2} {
			k := 0
			for _, b := range hb {
				k += b
			}
			if !thorough && k > 3 && cc == 2 {
				continue
			}
			out = append(out, scenario{Handoff: hb, ChanCap: cc, K: k, Bound: bound})
		}
	}
	return out
}

// signature binding: every single-bit change of the signature and every change of a snapshot field
// must make the signature invalid.
func binding(r *ev.Run) {
	for i := 0; i < 4; i++ {
		s := snapshot(i)
		msg := []byte(fmt.Sprintf("%v", s))
		sig, err := signer.Sign(msg)
		if err != nil {
			r.Violation("signing a snapshot fails", nil)
			return
		}
		if ok, _ := signer.Verify(msg, sig); !ok {
			r.Violation("a fresh signature does not verify", nil)
		}
		for bit := 0; bit < len(sig)*8; bit++ {
			t := append([]byte{}, sig...)
			t[bit/8] ^= 1 << uint(bit%8)
			r.Eval(1)
			if ok, _ := signer.Verify(msg, t); ok {
				r.Violation("a signature with one bit changed still verifies", map[string]int{"bit": bit})
			}
		}
		alter := func(what string, f func(c *protocol.Snapshot)) {
			c := *s
			c.EventDigest = append(hashing.Digest{}, s.EventDigest...)
			c.HistoryDigest = append(hashing.Digest{}, s.HistoryDigest...)
			c.HyperDigest = append(hashing.Digest{}, s.HyperDigest...)
			f(&c)
			r.Eval(1)
			if ok, _ := signer.Verify([]byte(fmt.Sprintf("%v", &c)), sig); ok {
				r.Violation("the signature still verifies after the snapshot's "+what+" was changed", map[string]int{"snapshot": i})
			}
		}
		for b := 0; b < 32; b++ {
			b := b
			alter("event digest", func(c *protocol.Snapshot) { c.EventDigest[b] ^= 0x01 })
			alter("history digest", func(c *protocol.Snapshot) { c.HistoryDigest[b] ^= 0x80 })
			alter("hyper digest", func(c *protocol.Snapshot) { c.HyperDigest[b] ^= 0x10 })
		}
		alter("version", func(c *protocol.Snapshot) { c.Version++ })
		alter("version", func(c *protocol.Snapshot) { c.Version = c.Version*2 + 7 })
		alter("event digest", func(c *protocol.Snapshot) { c.EventDigest = c.EventDigest[:31] })
		alter("digests", func(c *protocol.Snapshot) { c.EventDigest, c.HistoryDigest = c.HistoryDigest, c.EventDigest })
	}
	r.Distinct("signature binding")
}

// TestC17Race: the real sender with 3 batchers as free-running goroutines on an UNINSTRUMENTED -race
// build: bursts of snapshots, every published signature verified. The cooperative scheduler has no
// scheduling point inside doSign, so state shared between batchers without synchronisation is the
// race detector's to find. A sampler: it can add a violation, it is not counted as coverage.
func TestC17Race(t *testing.T) {
	r := ev.Begin("C17")
	iters, burst := 6, 300
	if r.Thorough() {
		iters, burst = 40, 1000
	}
	fails := map[string]bool{}
	for it := 0; it < iters; it++ {
		conf := gossip.DefaultConfig()
		conf.NodeName, conf.Role, conf.BindAddr = "verif-sender", "server", "127.0.0.1:12397"
		a, err := gossip.NewAgentFromConfig(conf)
		if err != nil {
			t.Fatal(err)
		}
		col := &collector{}
		a.Out.Subscribe(gossip.BatchMessageType, col, 4096)
		snd := server.NewSender(a, signer, 7, 2, 3)
		ch := make(chan *protocol.Snapshot, 4096)
		snd.Start(ch)
		for i := 0; i < burst; i++ {
			ch <- snapshot(i)
		}
		seen := map[uint64]int{}
		got := 0
		deadline := time.After(120 * time.Second) // hang guard only: the flush timer is 100 ms
	collect:
		for got < burst {
			select {
			case m := <-col.ch:
				var b protocol.BatchSnapshots
				if err := b.Decode(m.Payload); err != nil {
					fails["a published batch cannot be decoded (free-running pass)"] = true
					continue
				}
				for _, ss := range b.Snapshots {
					got++
					if ss == nil || ss.Snapshot == nil {
						fails["a batch contains an empty entry (free-running pass)"] = true
						continue
					}
					seen[ss.Snapshot.Version]++
					if ok, _ := signer.Verify([]byte(fmt.Sprintf("%v", ss.Snapshot)), ss.Signature); !ok {
						fails["a published snapshot carries a signature that does not verify under the server's key (free-running pass, 3 batchers)"] = true
					}
				}
			case <-deadline:
				fails["snapshots handed to the running sender are never published (free-running pass)"] = true
				break collect
			}
		}
		for v, c := range seen {
			if c > 1 {
				fails["a snapshot is published more than once (free-running pass)"] = true
				_ = v
			}
		}
		snd.Stop()
		r.Eval(burst)
	}
	for f := range fails {
		r.Violation(f, nil)
	}
	r.Extra("race_detector_iterations", iters)
	r.Extra("race_detector_burst", burst)
	r.Finish()
}

func TestC17(t *testing.T) {
	r := ev.Begin("C17")
	r.Rule("the real server.Sender (2 batchers, batch size 2, real ed25519 signer) on a real un-started gossip.Agent with one subscriber on its outgoing bus, under the controlled scheduler (scheduling points: every channel operation, select, lock, spawn; a select's timer case fires for free when nothing else can run and as a counted deviation otherwise); a feeder pushes k=1..4 (5 thorough) snapshots in EVERY composition into groups with EVERY choice per gap of 'wait until taken' or 'wait until published'; ALL interleavings with at most 2 deviations (1 for k=4 quick; 3 thorough); the sender keeps running until everything is published (a snapshot that never comes out is reported as the resulting deadlock/loss); oracle: every snapshot in exactly one batch, batch sizes 1..2, every signature verifies over the printed snapshot under the server's key, content unchanged, configured kind and TTL; plus signature binding: every single-bit change of the 64 signature bytes and every change of a digest byte / the version must invalidate the signature; outcomes = distinct batch shapes observed")
	r.Assume("Go's pseudo-random choice among several ready select cases is not branched on (first ready case in source order); virtual time: a timer case may fire early as a deviation and always fires when nothing else is runnable", "what happens to a partial batch when the sender is stopped is outside the property (\"while the sender is running\")", "ed25519 trusted")
	if r.Shard == 0 {
		binding(r)
	}
	scs := scenarios(r.Thorough())
	if r.Replay != "" {
		var rd struct {
			Detail struct {
				Scenario scenario `json:"scenario"`
				Schedule []int    `json:"schedule"`
			} `json:"detail"`
		}
		b, _ := os.ReadFile(r.Replay)
		json.Unmarshal(b, &rd)
		e := &sx.Explorer{Body: body(rd.Detail.Scenario)}
		x, det := e.Replay(rd.Detail.Schedule)
		fmt.Printf("replay deterministic=%v\n%s\n", det, strings.Join(x.Trace, "\n"))
		for _, f := range x.Fails {
			r.Violation(f.Sig, map[string]interface{}{"scenario": rd.Detail.Scenario, "schedule": rd.Detail.Schedule})
		}
		r.Finish()
		return
	}
	minBound := 99
	for i, s := range scs {
		if !r.Mine(i) {
			continue
		}
		s := s
		if r.OutOfTime() {
			r.Capped("time budget reached before scenario " + s.String())
			continue
		}
		e := &sx.Explorer{MaxBound: s.Bound, DelayBounding: true, MaxSteps: 3000, Body: body(s)}
		e.Deadline = time.Now().Add(8 * time.Minute)
		e.OnDeadlock = func(x *sx.Exec) string {
			if strings.Contains(x.DeadlockInfo, "published") {
				return "a snapshot handed to the running sender is never published: the sender goes quiet while the feeder still waits for it"
			}
			return "deadlock: " + x.DeadlockInfo
		}
		e.OnFailure = func(x *sx.Exec, f sx.Failure, schedule []int) {
			x2, det := e.Replay(schedule)
			if !det {
				r.Violation("HARNESS: NONDETERMINISM replaying a failing schedule", map[string]interface{}{"scenario": s, "schedule": schedule})
				return
			}
			r.Violation(f.Sig, map[string]interface{}{"scenario": s, "schedule": append([]int{}, schedule...), "trace": x2.Trace, "detail": f.Detail})
		}
		e.Run()
		if okr, badr := e.ValidateReplays(); badr > 0 {
			r.Violation("HARNESS: NONDETERMINISM: an explored schedule does not reproduce when replayed", nil)
		} else {
			r.Validated(okr)
		}
		r.Eval(e.Execs)
		r.States(e.Execs)
		r.Transitions(e.PointsTotal)
		r.Distinct(s.String())
		for k := range e.Outcomes {
			r.Outcome(k)
		}
		if e.Capped != "" {
			r.Capped(s.String() + ": " + e.Capped)
		}
		if e.BoundCompleted < minBound {
			minBound = e.BoundCompleted
		}
		if i%9 == 0 {
			r.Sample(map[string]interface{}{"scenario": s.String(), "executions": e.Execs, "schedulingPoints": e.PointsTotal, "boundCompleted": e.BoundCompleted, "batchShapes": len(e.Outcomes)})
		}
		fmt.Printf("[c17] %s: execs=%d points=%d bound=%d outcomes=%d failures=%v\n", s, e.Execs, e.PointsTotal, e.BoundCompleted, len(e.Outcomes), e.Failures)
	}
	if minBound != 99 {
		r.Bound("deviation_bound_completed_min", minBound)
	}
	r.Finish()
}
