//go:build verif

// Package c09: a follower restored by state transfer converges to the leader's state.
// Explicit-state BFS (package fx) over the transfer sub-alphabet: propose, deliver, raft snapshot
// (with log compaction on the leader), install (the follower's real Restore fed by the leader's real
// FetchSnapshot), join of a brand-new replica, restart, leadership transfer.
package c09

import (
	"encoding/json"
	"fmt"
	"os"
	"runtime"
	"sort"
	"sync"
	"testing"

	"github.com/bbva/qed/verifx/ev"
	"github.com/bbva/qed/verifx/fx"
)

// gapScenarios: "a transfer that would leave a gap in the version sequence is refused rather than
// applied". The leader's write-ahead log is really purged (store opened with no WAL retention, closed
// and reopened after p entries), then every follower position f (0 = a brand-new node) asks for a
// transfer. Whatever the leader's log still holds, the outcome must be one of two: the transfer is
// refused and the follower is exactly as before, or it succeeds and the follower equals a replica that
// applied every entry itself.
func gapScenarios(r *ev.Run) {
	maxLen := 3
	if r.Thorough() {
		maxLen = 4
	}
	var seqs [][]int
	var gen func(cur []int)
	gen = func(cur []int) {
		if len(cur) > 0 {
			seqs = append(seqs, append([]int{}, cur...))
		}
		if len(cur) == maxLen {
			return
		}
		for _, k := range []int{1, 2} {
			gen(append(cur, k))
		}
	}
	gen(nil)
	var cases []fx.GapCase
	for _, sq := range seqs {
		for p := 1; p <= len(sq); p++ {
			for f := 0; f < len(sq); f++ {
				cases = append(cases, fx.GapCase{Entries: sq, PurgeAfter: p, FollowerApplied: f})
			}
		}
	}
	r.Bound("gap_cases", len(cases))
	var mu sync.Mutex
	out := map[string]int{}
	ev.ParallelFor(len(cases), 8, func(i int) {
		if !r.Mine(i) {
			return
		}
		o := fx.RunGapCase(r, cases[i])
		mu.Lock()
		out[o]++
		mu.Unlock()
		r.Distinct(fmt.Sprint("gap", cases[i]))
	})
	for k, v := range out {
		r.Extra("gap_"+k, v)
		r.Outcome("gap " + k)
	}
	if out["refused"] == 0 {
		r.Capped("gap scenarios vacuous: the leader's write-ahead log was never purged, no transfer had to be refused")
	}
}

func TestC09(t *testing.T) {
	r := ev.Begin("C09")
	r.Rule("explicit-state BFS on a cluster of real RaftNode FSMs over real RocksDB stores; transitions = propose(bulk), deliver(r), snapshot(r) (real Snapshot+Persist; on the leader it compacts the log), install(r) (the follower's real Restore with the leader's snapshot; the gRPC fetch is replaced by the leader's real FetchSnapshot served in-process, so validateF, RocksDBStore.FetchSnapshot, LoadSnapshot, loadState and RefreshVersion all run), join (a brand-new replica), restart(r), transfer(r); after every transition the touched replicas are compared with a fault-free replica at the same applied index (version, FSM state, four table dumps, filled hyper-cache buckets) and every proof they serve is verified against the snapshots the leader acknowledged; snapshots that a restored replica computes locally for later entries must equal the leader's")
	r.Assume("environment model = hashicorp/raft's FSM contract; InstallSnapshot happens only when the leader has a snapshot beyond the follower's applied index", "RocksDB's WAL iterator and write batches are trusted base (librocksdb 7.8 instead of upstream's 6.x)", "the gRPC transport and chunkReader are skipped here and exercised by the real-cluster conformance traces")
	b := fx.Bounds{MaxEntries: 4, BulkSizes: []int{1, 2}, Restarts: true, Snapshots: true, Transfers: true, Joins: true, MaxRestarts: 1, MaxSnapshots: 2}
	reps, maxRep, depth := 2, 3, 6
	if r.Thorough() {
		b = fx.Bounds{MaxEntries: 5, BulkSizes: []int{1, 2, 3}, Restarts: true, Crashes: true, Snapshots: true, Transfers: true, Joins: true, MaxRestarts: 2, MaxSnapshots: 3}
		depth = 12
	}
	if r.Replay != "" {
		var rd struct {
			Detail struct {
				Events []fx.Event `json:"events"`
			} `json:"detail"`
		}
		bs, _ := os.ReadFile(r.Replay)
		json.Unmarshal(bs, &rd)
		c, _ := fx.NewCluster(r, reps, maxRep)
		defer c.Destroy()
		for _, e := range rd.Detail.Events {
			if !c.Step(e) {
				break
			}
			for _, rp := range c.R {
				c.CheckReplica(rp, true)
			}
		}
		r.Finish()
		return
	}
	gapScenarios(r)
	fx.BFS(r, reps, maxRep, b, depth, nil, runtime.NumCPU())
	_ = fmt.Sprint
	_ = sort.Ints
	_ = sync.Mutex{}
	r.Finish()
}
