//go:build verif

// Package cx: a REAL 3-node QED cluster (three consensus.RaftNode values with the real hashicorp/raft,
// the real cmux/gRPC transport on loopback and a RocksDB store each) inside one child process, driven
// by a scenario (a list of events) and interrogated at the end. The parent enumerates scenarios
// exhaustively; the child is one-shot so that a crash or a hang of the cluster is an observation.
package cx

import (
	"bytes"
	"encoding/json"
	"fmt"
	"net"
	"os"
	"os/exec"
	"path/filepath"
	"strings"
	"time"

	"github.com/bbva/qed/balloon"
	"github.com/bbva/qed/consensus"
	"github.com/bbva/qed/crypto/hashing"
	"github.com/bbva/qed/protocol"
	"github.com/bbva/qed/rocksdb"
	"github.com/bbva/qed/storage"
	"github.com/bbva/qed/storage/rocks"
	"github.com/bbva/qed/verifx/hx"
)

type Event struct {
	Kind string `json:"kind"` // add | stop | start | snapshot | transfer | backup | rebuild | bounce0
	K    int    `json:"n,omitempty"`
}

func (e Event) String() string {
	if e.Kind == "add" {
		return fmt.Sprintf("add(%d)", e.K)
	}
	return e.Kind
}

func PathString(p []Event) string {
	s := make([]string, len(p))
	for i, e := range p {
		s[i] = e.String()
	}
	return strings.Join(s, " ")
}

type Scenario struct {
	Events       []Event `json:"events"`
	TrailingLogs uint64  `json:"trailingLogs"` // 0: a raft snapshot compacts the whole log (state-transfer path)
}

type NodeResult struct {
	Up       bool   `json:"up"`
	Version  uint64 `json:"version"`
	Tables   string `json:"tables"`
	FsmIndex uint64 `json:"fsmIndex"`
}

type Result struct {
	Error    string       `json:"error,omitempty"`    // the scenario could not be driven (an event failed)
	Problems []string     `json:"problems,omitempty"` // property-level observations
	Nodes    []NodeResult `json:"nodes"`
	Events   int          `json:"events"`
	Leaders  []int        `json:"leaders"` // who was leader at each add
}

// ---------------------------------------------------------------- child

type member struct {
	id    int
	addr  [3]string
	node  *consensus.RaftNode
	store *rocks.RocksDBStore
	ch    chan *protocol.Snapshot
	dir   string
}

func freeAddr() string {
	l, err := net.Listen("tcp", "127.0.0.1:0")
	if err != nil {
		panic(err)
	}
	defer l.Close()
	return l.Addr().String()
}

// start retries while the loopback port is taken: the ports were probed free when the child began, and
// on a busy machine another process can grab one while this member is down (the sandbox, not QED)
func (m *member) start(bootstrap bool, seeds []string, trailing uint64) error {
	var err error
	for i := 0; i < 40; i++ {
		err = m.start1(bootstrap, seeds, trailing)
		if err == nil || !strings.Contains(err.Error(), "address already in use") {
			return err
		}
		if m.store != nil {
			m.store.Close()
			m.store = nil
		}
		time.Sleep(250 * time.Millisecond)
	}
	return err
}

func (m *member) start1(bootstrap bool, seeds []string, trailing uint64) error {
	opts := consensus.DefaultClusteringOptions()
	opts.NodeID = fmt.Sprintf("n%d", m.id)
	opts.Addr, opts.MgmtAddr, opts.HttpAddr = m.addr[0], m.addr[1], m.addr[2]
	opts.Bootstrap = bootstrap
	opts.Seeds = seeds
	opts.SnapshotThreshold = 0
	opts.TrailingLogs = trailing
	opts.RaftHeartbeatTimeout = 300 * time.Millisecond
	opts.RaftElectionTimeout = 300 * time.Millisecond
	opts.RaftLeaseTimeout = 300 * time.Millisecond
	opts.RaftCommitTimeout = 10 * time.Millisecond
	opts.RaftLogPath = filepath.Join(m.dir, "raft")
	os.MkdirAll(opts.RaftLogPath, 0755)
	dbp := filepath.Join(m.dir, "db")
	os.MkdirAll(dbp, 0755)
	s, err := rocks.NewRocksDBStore(dbp, 0)
	if err != nil {
		return err
	}
	m.store = s
	m.ch = make(chan *protocol.Snapshot, 1<<16)
	go func(c chan *protocol.Snapshot) {
		for range c {
		}
	}(m.ch)
	n, err := consensus.NewRaftNode(opts, s, m.ch, nil)
	if err != nil {
		return err
	}
	m.node = n
	return nil
}

func (m *member) stop() error {
	if m.node == nil {
		return nil
	}
	err := m.node.Close(true)
	m.node = nil
	return err
}

// restoreLatest is cmd/restore.go's runRestore for the latest backup.
func restoreLatest(backupDir, dst string) error {
	bo := rocksdb.NewDefaultOptions()
	defer bo.Destroy()
	be, err := rocksdb.OpenBackupEngine(bo, backupDir)
	if err != nil {
		return err
	}
	defer be.Close()
	ro := rocksdb.NewRestoreOptions()
	defer ro.Destroy()
	return be.RestoreDBFromLatestBackup(dst, dst, ro)
}

// a node is restarted with the configuration it was started with: the other members as seeds (used
// only if it has no raft state of its own yet)
func seedsFor(ms []*member, i int) []string {
	var out []string
	for j, m := range ms {
		if j != i {
			out = append(out, m.addr[0])
		}
	}
	return out
}

func tables(s storage.Store) string {
	var parts []string
	for _, t := range []storage.Table{storage.HyperTable, storage.HyperCacheTable, storage.HistoryTable, storage.FSMStateTable} {
		parts = append(parts, hx.HashDump(hx.DumpTable(s, t)))
	}
	return strings.Join(parts, "/")
}

func evName(i int) []byte { return []byte(fmt.Sprintf("cluster-event-%d", i)) }

// ChildMain runs the cluster child if VERIF_CHILD=cluster.
func ChildMain() bool {
	if os.Getenv("VERIF_CHILD") != "cluster" {
		return false
	}
	var sc Scenario
	json.Unmarshal([]byte(os.Getenv("VERIF_CL_SCENARIO")), &sc)
	if os.Getenv("VERIF_CL_PATIENT") == "1" {
		patience = 4
	}
	res := run(os.Getenv("VERIF_CL_DIR"), sc)
	b, _ := json.Marshal(res)
	os.Stdout.Write(append(b, '\n'))
	os.Exit(0)
	return true
}

// patience multiplies every wait: a scenario that did not converge is run a second time with more of it
var patience = time.Duration(1)

func run(base string, sc Scenario) (res Result) {
	ms := make([]*member, 3)
	for i := range ms {
		ms[i] = &member{id: i, dir: filepath.Join(base, fmt.Sprintf("n%d", i)), addr: [3]string{freeAddr(), freeAddr(), freeAddr()}}
	}
	fail := func(f string, a ...interface{}) Result {
		res.Error = fmt.Sprintf(f, a...)
		return res
	}
	if err := ms[0].start(true, nil, sc.TrailingLogs); err != nil {
		return fail("seed does not start: %v", err)
	}
	if err := ms[0].node.WaitForLeader(20 * time.Second); err != nil {
		return fail("seed never becomes leader: %v", err)
	}
	for i := 1; i < 3; i++ {
		if err := ms[i].start(false, []string{ms[0].addr[0]}, sc.TrailingLogs); err != nil {
			return fail("follower %d does not join: %v", i, err)
		}
	}
	leader := func() *member {
		deadline := time.Now().Add(patience * 40 * time.Second)
		for time.Now().Before(deadline) {
			for _, m := range ms {
				if m.node != nil && m.node.IsLeader() {
					return m
				}
			}
			time.Sleep(20 * time.Millisecond)
		}
		return nil
	}
	var acked []*balloon.Snapshot
	var digests [][]byte
	var backupOf *member
	down := -1
	converge := func(what string) bool {
		deadline := time.Now().Add(patience * 90 * time.Second)
		for time.Now().Before(deadline) {
			ld := leader()
			if ld == nil {
				break
			}
			li, lv := ld.node.VerifState()
			ok := ld.node.VerifBalloon().Version() == uint64(len(acked))
			for _, m := range ms {
				if m.node == nil {
					continue
				}
				i, v := m.node.VerifState()
				if i != li || v != lv || m.node.VerifBalloon().Version() != uint64(len(acked)) {
					ok = false
				}
			}
			if ok {
				return true
			}
			time.Sleep(25 * time.Millisecond)
		}
		res.Problems = append(res.Problems, "a replica does not catch up with the leader ("+what+")")
		return false
	}
	for _, e := range sc.Events {
		switch e.Kind {
		case "add":
			var evs [][]byte
			for j := 0; j < e.K; j++ {
				evs = append(evs, evName(len(digests)+j))
			}
			var snaps []*balloon.Snapshot
			var err error
			for try := 0; try < 40; try++ {
				ld := leader()
				if ld == nil {
					return fail("no leader for an add")
				}
				snaps, err = ld.node.AddBulk(evs)
				if err == nil {
					res.Leaders = append(res.Leaders, ld.id)
					break
				}
				time.Sleep(100 * time.Millisecond)
			}
			if err != nil {
				return fail("an add is refused: %v", err)
			}
			for j, s := range snaps {
				if s.Version != uint64(len(acked)) {
					res.Problems = append(res.Problems, "an acknowledged insertion does not carry the next dense version")
				}
				acked = append(acked, s)
				h := hashing.NewSha256Hasher().Do(evs[j])
				digests = append(digests, h)
			}
		case "stop":
			// stop a follower (the highest-numbered one that is up and not the leader)
			ld := leader()
			if ld == nil || down >= 0 {
				return fail("stop: no leader or a node is already down")
			}
			if !converge("before a follower is stopped") {
				return res
			}
			for i := 2; i >= 0; i-- {
				if ms[i] != ld && ms[i].node != nil {
					if err := ms[i].stop(); err != nil {
						res.Problems = append(res.Problems, "a follower cannot be stopped cleanly: "+err.Error())
					}
					down = i
					break
				}
			}
		case "start":
			if down < 0 {
				return fail("start: nothing is down")
			}
			if err := ms[down].start(false, seedsFor(ms, down), sc.TrailingLogs); err != nil {
				if strings.Contains(err.Error(), "address already in use") {
					return fail("the follower's port was taken by another process while it was down")
				}
				if strings.Contains(err.Error(), "lock hold by current process") {
					// the three nodes share one process here: a database handle of the stopped instance
					// that is still being released is an artefact of that, a real restart is a new process
					return fail("the stopped instance still holds a database lock in this process")
				}
				res.Problems = append(res.Problems, "a stopped follower does not start again on its data: "+err.Error())
				return res
			}
			down = -1
		case "bounce0":
			// the node that bootstrapped the cluster is stopped and started again with the same flags
			if down >= 0 {
				return fail("bounce0: a node is already down")
			}
			if !converge("before the seed node is restarted") {
				return res
			}
			if err := ms[0].stop(); err != nil {
				res.Problems = append(res.Problems, "the seed node cannot be stopped cleanly: "+err.Error())
			}
			if err := ms[0].start(true, nil, sc.TrailingLogs); err != nil {
				if strings.Contains(err.Error(), "address already in use") || strings.Contains(err.Error(), "lock hold by current process") {
					return fail("the seed node could not be restarted in this process: " + err.Error())
				}
				res.Problems = append(res.Problems, "the seed node does not start again on its data: "+err.Error())
				return res
			}
		case "backup":
			ld := leader()
			if ld == nil {
				return fail("backup: no leader")
			}
			if err := ld.node.CreateBackup(); err != nil {
				return fail("backup fails: %v", err)
			}
			backupOf = ld
		case "rebuild":
			// disaster recovery of one server: a follower loses everything, its store is restored from the
			// leader's last backup (as cmd/restore.go does it), its raft directory is empty, and it joins again
			ld := leader()
			if ld == nil || backupOf == nil || down >= 0 {
				return fail("rebuild: no leader, no backup, or a node is down")
			}
			if !converge("before a follower is rebuilt") {
				return res
			}
			var f *member
			for i := 2; i >= 0; i-- {
				if ms[i] != ld && ms[i] != backupOf && ms[i].node != nil {
					f = ms[i]
					break
				}
			}
			if f == nil {
				return fail("rebuild: no follower to rebuild")
			}
			if err := f.stop(); err != nil {
				res.Problems = append(res.Problems, "a follower cannot be stopped cleanly: "+err.Error())
			}
			os.RemoveAll(f.dir)
			os.MkdirAll(filepath.Join(f.dir, "db"), 0755)
			if err := restoreLatest(filepath.Join(backupOf.dir, "db", "backups"), filepath.Join(f.dir, "db")); err != nil {
				return fail("restore fails: %v", err)
			}
			if err := f.start(false, seedsFor(ms, f.id), sc.TrailingLogs); err != nil {
				if strings.Contains(err.Error(), "address already in use") {
					return fail("the follower's port was taken by another process while it was down")
				}
				res.Problems = append(res.Problems, "a server rebuilt from a backup does not join the cluster again: "+err.Error())
				return res
			}
		case "snapshot":
			ld := leader()
			if ld == nil {
				return fail("snapshot: no leader")
			}
			if err := ld.node.VerifForceRaftSnapshot(); err != nil && !strings.Contains(err.Error(), "nothing new to snapshot") {
				return fail("raft snapshot fails: %v", err)
			}
		case "transfer":
			ld := leader()
			if ld == nil {
				return fail("transfer: no leader")
			}
			if err := ld.node.VerifLeaveLeadership(); err != nil {
				return fail("leadership transfer fails: %v", err)
			}
			time.Sleep(50 * time.Millisecond)
		}
	}
	if down >= 0 {
		if err := ms[down].start(false, seedsFor(ms, down), sc.TrailingLogs); err != nil {
			if strings.Contains(err.Error(), "address already in use") {
				return fail("the follower's port was taken by another process while it was down")
			}
			res.Problems = append(res.Problems, "a stopped follower does not start again on its data: "+err.Error())
			return res
		}
	}
	res.Events = len(acked)
	if !converge("at the end of the scenario") {
		return res
	}
	// every replica: same state, and every proof it serves verifies against the leader's snapshots
	for _, m := range ms {
		nr := NodeResult{Up: m.node != nil}
		if m.node != nil {
			nr.Version = m.node.VerifBalloon().Version()
			nr.FsmIndex, _ = m.node.VerifState()
			nr.Tables = tables(m.store)
			n := uint64(len(acked))
			for v := uint64(0); v < n; v++ {
				for q := v; q < n; q++ {
					p, err := m.node.QueryDigestMembershipConsistency(digests[v], q)
					ok := false
					if err == nil && p.Exists {
						snap := &balloon.Snapshot{HistoryDigest: acked[q].HistoryDigest, HyperDigest: acked[n-1].HyperDigest}
						if w, _, e := hx.WireMembership(p); e == nil {
							ok = w.DigestVerify(digests[v], snap)
						}
					}
					if !ok {
						res.Problems = append(res.Problems, fmt.Sprintf("a membership proof served by replica n%d does not verify against the snapshots the leader acknowledged", m.id))
					}
				}
			}
			for j := uint64(0); j < n; j++ {
				for i := uint64(0); i <= j; i++ {
					p, err := m.node.QueryConsistency(i, j)
					ok := false
					if err == nil {
						if w, _, e := hx.WireIncremental(p); e == nil {
							ok = w.Verify(acked[i], acked[j])
						}
					}
					if !ok {
						res.Problems = append(res.Problems, fmt.Sprintf("a consistency proof served by replica n%d does not verify against the snapshots the leader acknowledged", m.id))
					}
				}
			}
		}
		res.Nodes = append(res.Nodes, nr)
	}
	for _, m := range ms {
		if m.node != nil {
			m.node.Close(true)
		}
	}
	return res
}

// ---------------------------------------------------------------- parent

// Run executes one scenario in a fresh child process.
func Run(dir string, sc Scenario) (*Result, string) { return RunPatient(dir, sc, false) }

// RunPatient: with patient=true every wait of the child is four times as long.
func RunPatient(dir string, sc Scenario, patient bool) (*Result, string) {
	self := os.Getenv("VERIF_SELF")
	if self == "" {
		self, _ = os.Executable()
	}
	os.MkdirAll(dir, 0755)
	defer os.RemoveAll(dir)
	b, _ := json.Marshal(sc)
	cmd := exec.Command(self, "-test.run", "^$")
	cmd.Env = append(os.Environ(), "VERIF_CHILD=cluster", "VERIF_CL_DIR="+dir, "VERIF_CL_SCENARIO="+string(b), "GOMAXPROCS=4")
	wait := 8 * time.Minute
	if patient {
		cmd.Env = append(cmd.Env, "VERIF_CL_PATIENT=1")
		wait = 30 * time.Minute
	}
	var out, errb bytes.Buffer
	cmd.Stdout, cmd.Stderr = &out, &errb
	if err := cmd.Start(); err != nil {
		return nil, "cannot start the cluster child: " + err.Error()
	}
	done := make(chan error, 1)
	go func() { done <- cmd.Wait() }()
	select {
	case err := <-done:
		if err != nil {
			return nil, "the cluster process died: " + lastPanic(errb.String(), err)
		}
	case <-time.After(wait):
		cmd.Process.Kill()
		<-done
		return nil, "the cluster process hangs"
	}
	var res Result
	lines := strings.Split(strings.TrimSpace(out.String()), "\n")
	if err := json.Unmarshal([]byte(lines[len(lines)-1]), &res); err != nil {
		return nil, "the cluster child's answer cannot be read"
	}
	return &res, ""
}

func lastPanic(stderr string, err error) string {
	for _, l := range strings.Split(stderr, "\n") {
		if strings.HasPrefix(l, "panic:") || strings.HasPrefix(l, "fatal error:") || strings.Contains(l, "Assertion") || strings.Contains(l, "[signal ") {
			if len(l) > 200 {
				l = l[:200]
			}
			return l
		}
	}
	// nothing recognisable: keep the last lines of what the process wrote
	t := strings.TrimSpace(stderr)
	if len(t) > 400 {
		t = t[len(t)-400:]
	}
	return err.Error() + " :: " + strings.ReplaceAll(t, "\n", " | ")
}
