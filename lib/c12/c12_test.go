//go:build verif

// Package c12: the client verifier is total. Every structured mutation of genuine answers
// (as JSON bytes) is fed to (a) protocol.To*Proof + Verify directly and (b) the real
// client.HTTPClient over a scripted http.RoundTripper; the oracle is: returns (an error or
// a verdict) without panic and within a step watchdog.
package c12

import (
	"bytes"
	"encoding/json"
	"fmt"
	"io/ioutil"
	"net/http"
	"os"
	"runtime"
	"sort"
	"strings"
	"sync"
	"sync/atomic"
	"testing"
	"time"

	"github.com/bbva/qed/balloon"
	"github.com/bbva/qed/client"
	"github.com/bbva/qed/crypto/hashing"
	"github.com/bbva/qed/protocol"
	"github.com/bbva/qed/verifx/ev"
	"github.com/bbva/qed/verifx/hx"
)

type doc = map[string]interface{}

func clone(v interface{}) interface{} {
	b, _ := json.Marshal(v)
	var o interface{}
	dec := json.NewDecoder(bytes.NewReader(b))
	dec.UseNumber()
	dec.Decode(&o)
	return o
}

func toDoc(v interface{}) doc {
	b, _ := json.Marshal(v)
	var o doc
	dec := json.NewDecoder(bytes.NewReader(b))
	dec.UseNumber()
	dec.Decode(&o)
	return o
}

func enc(v interface{}) []byte { b, _ := json.Marshal(v); return b }

type cand struct {
	Kind string `json:"kind"` // membership | incremental
	Edit string `json:"edit"`
	Body string `json:"body"`
	Snap string `json:"snapshotAnswer,omitempty"`
}

var badKeys = []string{"", "x", "1", "1|", "|1", "1|2|3", "-1|0", "0|70000", "99999999999999999999|0", "0x|5", "|", "0|-1", " 1|1"}
var bigVersions = []string{"0", "1", "5", "6", "4294967296", "9223372036854775807", "9223372036854775808", "18446744073709551615"}

func digestOfLen(n int) []byte { return bytes.Repeat([]byte{0xAB}, n) }

func sortedKeys(m map[string]interface{}) []string {
	ks := make([]string, 0, len(m))
	for k := range m {
		ks = append(ks, k)
	}
	sort.Strings(ks)
	return ks
}

// mutations of one genuine JSON object. pathFields are the audit-path maps, verFields the version scalars.
func mutations(kind string, base doc, pathFields, verFields, digestFields []string, fullVersions bool) []cand {
	var out []cand
	add := func(edit string, v interface{}) {
		out = append(out, cand{Kind: kind, Edit: edit, Body: string(enc(v))})
	}
	raw := func(edit, body string) { out = append(out, cand{Kind: kind, Edit: edit, Body: body}) }
	add("genuine", base)
	for _, top := range []string{"null", "{}", "[]", "0", "\"x\"", "true", "", "{", "[1,2", "{\"Exists\":", "\xff\xfe", "{\"Hyper\":{\"a\":\"!!notbase64\"}}"} {
		raw("top-level "+top, top)
	}
	full := string(enc(base))
	for _, cut := range []int{1, len(full) / 4, len(full) / 2, len(full) - 2, len(full) - 1} {
		if cut > 0 && cut < len(full) {
			raw(fmt.Sprintf("truncated at %d", cut), full[:cut])
		}
	}
	for _, f := range sortedKeys(base) {
		for name, v := range map[string]interface{}{"absent": nil, "null": nil, "string": "zzz", "number": 7, "array": []int{1}, "object": doc{"a": 1}, "bool": true} {
			d := clone(base).(doc)
			if name == "absent" {
				delete(d, f)
			} else {
				d[f] = v
			}
			add(fmt.Sprintf("field %s -> %s", f, name), d)
		}
	}
	for _, pf := range pathFields {
		pm, _ := base[pf].(doc)
		keys := sortedKeys(pm)
		d := clone(base).(doc)
		d[pf] = doc{}
		add("path "+pf+" emptied", d)
		for _, k := range keys {
			d := clone(base).(doc)
			delete(d[pf].(doc), k)
			add("path "+pf+" entry dropped "+k, d)
			for _, bk := range badKeys {
				d := clone(base).(doc)
				m := d[pf].(doc)
				m[bk] = m[k]
				delete(m, k)
				add(fmt.Sprintf("path %s key %s renamed to %q", pf, k, bk), d)
			}
			for _, ln := range []int{0, 1, 7, 31, 33, 64} {
				d := clone(base).(doc)
				d[pf].(doc)[k] = digestOfLen(ln)
				add(fmt.Sprintf("path %s entry %s digest of %d bytes", pf, k, ln), d)
			}
			d = clone(base).(doc)
			d[pf].(doc)[k] = nil
			add("path "+pf+" entry null "+k, d)
		}
		for _, bk := range badKeys {
			d := clone(base).(doc)
			if d[pf] == nil {
				d[pf] = doc{}
			}
			d[pf].(doc)[bk] = digestOfLen(32)
			add(fmt.Sprintf("path %s extra entry %q", pf, bk), d)
		}
		// keep only each single entry
		for _, k := range keys {
			d := clone(base).(doc)
			d[pf] = doc{k: pm[k]}
			add("path "+pf+" only entry "+k, d)
		}
		// a very large audit path
		d = clone(base).(doc)
		m := doc{}
		for i := 0; i < 600; i++ {
			m[fmt.Sprintf("%d|%d", i, i%70)] = digestOfLen(32)
			m[fmt.Sprintf("%#x|%d", digestOfLen(32), i)] = digestOfLen(32)
		}
		d[pf] = m
		add("path "+pf+" with 1200 entries", d)
	}
	for _, df := range digestFields {
		for _, ln := range []int{0, 1, 2, 3, 7, 8, 9, 16, 31, 33, 64, 300} {
			d := clone(base).(doc)
			d[df] = digestOfLen(ln)
			add(fmt.Sprintf("digest %s of %d bytes", df, ln), d)
		}
	}
	// version tuples
	vs := bigVersions
	if !fullVersions {
		vs = []string{"0", "6", "9223372036854775808", "18446744073709551615"}
	}
	var rec func(i int, d doc, label string)
	rec = func(i int, d doc, label string) {
		if i == len(verFields) {
			add("versions"+label, d)
			return
		}
		for _, v := range vs {
			d2 := clone(d).(doc)
			d2[verFields[i]] = json.Number(v)
			rec(i+1, d2, label+" "+verFields[i]+"="+v)
		}
	}
	rec(0, base, "")
	// numbers out of range for uint64 / wrong sign / float
	for _, vf := range verFields {
		for _, v := range []string{"-1", "1e30", "1.5", "18446744073709551616"} {
			d := clone(base).(doc)
			d[vf] = json.Number(v)
			add("version "+vf+"="+v, d)
		}
	}
	return out
}

// ---------------------------------------------------------------- targets

type outcome struct {
	panicked bool
	msg      string
	hung     bool
	res      string
}

var steps int64

func guarded(f func() string) outcome {
	ch := make(chan outcome, 1)
	go func() {
		var o outcome
		defer func() {
			if x := recover(); x != nil {
				o.panicked = true
				o.msg = fmt.Sprint(x)
			}
			ch <- o
		}()
		o.res = f()
	}()
	select {
	case o := <-ch:
		return o
	case <-time.After(60 * time.Second): // watchdog: nothing legitimate takes more than milliseconds
		return outcome{hung: true}
	}
}

func normPanic(msg string) string {
	if i := strings.Index(msg, "\n"); i >= 0 {
		msg = msg[:i]
	}
	var b strings.Builder
	prev := false
	for _, ch := range msg {
		if ch >= '0' && ch <= '9' {
			if !prev {
				b.WriteByte('#')
			}
			prev = true
		} else {
			b.WriteRune(ch)
			prev = false
		}
	}
	s := b.String()
	if i := strings.Index(s, "position"); i >= 0 {
		s = s[:i+8]
	}
	if i := strings.Index(s, "Invalid position"); i >= 0 {
		s = s[:i+16]
	}
	if len(s) > 100 {
		s = s[:100]
	}
	return s
}

type world struct {
	snaps    []*balloon.Snapshot
	digs     [][]byte
	snapJSON map[uint64]string // honest snapshot-store answers
}

func (w *world) direct(c cand) func() string {
	return func() string {
		snapA := w.snaps[len(w.snaps)-1]
		if c.Kind == "membership" {
			var mr *protocol.MembershipResult
			if err := json.Unmarshal([]byte(c.Body), &mr); err != nil {
				return "decode error"
			}
			if mr == nil {
				return "null answer"
			}
			p := protocol.ToBalloonProof(mr, hashing.NewSha256Hasher)
			v := p.DigestVerify(w.digs[2], snapA)
			v2 := p.DigestVerify(mr.KeyDigest, w.snaps[0])
			v3 := p.Verify([]byte("some event"), snapA)
			return fmt.Sprint(v, v2, v3)
		}
		var ir *protocol.IncrementalResponse
		if err := json.Unmarshal([]byte(c.Body), &ir); err != nil {
			return "decode error"
		}
		if ir == nil {
			return "null answer"
		}
		p := protocol.ToIncrementalProof(ir, hashing.NewSha256Hasher)
		return fmt.Sprint(p.Verify(w.snaps[1], snapA), p.Verify(snapA, snapA))
	}
}

type scripted struct {
	mu    sync.Mutex
	proof string
	snap  string // "" = honest snapshot store
	w     *world
}

func (s *scripted) RoundTrip(req *http.Request) (*http.Response, error) {
	body := ""
	switch {
	case strings.HasPrefix(req.URL.Path, "/proofs/"):
		body = s.proof
	case strings.HasPrefix(req.URL.Path, "/snapshot"):
		if s.snap != "" {
			body = s.snap
		} else {
			var v uint64
			fmt.Sscanf(req.URL.RawQuery, "v=%d", &v)
			b, ok := s.w.snapJSON[v]
			if !ok {
				return &http.Response{StatusCode: 404, Body: ioutil.NopCloser(strings.NewReader("not found")), Header: http.Header{}, Request: req}, nil
			}
			body = b
		}
	default:
		body = "{}"
	}
	return &http.Response{StatusCode: 200, Body: ioutil.NopCloser(strings.NewReader(body)), Header: http.Header{}, Request: req}, nil
}

func (w *world) viaClient(c cand) func() string {
	return func() string {
		tr := &scripted{proof: c.Body, snap: c.Snap, w: w}
		cl, err := client.NewSimpleHTTPClient(&http.Client{Transport: tr}, []string{"http://qed.invalid:8800"}, "http://store.invalid:8888")
		if err != nil {
			panic("harness: " + err.Error())
		}
		snapA := w.snaps[len(w.snaps)-1]
		var out []string
		if c.Kind == "membership" {
			v := uint64(3)
			p, err := cl.Membership([]byte("ev"), &v)
			out = append(out, fmt.Sprint(err != nil))
			if err == nil && p != nil {
				ok, _ := cl.MembershipVerify(w.digs[2], p, snapA)
				out = append(out, fmt.Sprint(ok))
			}
			p, err = cl.MembershipDigest(w.digs[2], nil)
			if err == nil && p != nil {
				ok, _ := cl.MembershipVerify(w.digs[2], p, snapA)
				out = append(out, fmt.Sprint(ok))
			}
			ok, err := cl.MembershipAutoVerify(w.digs[2], &v)
			out = append(out, fmt.Sprint(ok, err != nil))
		} else {
			p, err := cl.Incremental(1, 4)
			out = append(out, fmt.Sprint(err != nil))
			if err == nil && p != nil {
				ok, _ := cl.IncrementalVerify(p, w.snaps[1], w.snaps[4])
				out = append(out, fmt.Sprint(ok))
			}
			ok, err := cl.IncrementalAutoVerify(1, 4)
			out = append(out, fmt.Sprint(ok, err != nil))
		}
		return strings.Join(out, ",")
	}
}

func TestC12(t *testing.T) {
	r := ev.Begin("C12")
	r.Rule("candidates = structured mutations of genuine membership/incremental answers as JSON bytes (top-level shapes, truncations, every field absent/null/wrong type, every audit-path entry dropped / renamed to 13 malformed keys / digest of 0,1,31,33,64 bytes / null, extra entries, 1200-entry paths, all version tuples over 8 boundary values, out-of-range numbers) x hostile snapshot-store answers; each is fed to protocol.To*Proof+Verify directly and to the real client.HTTPClient (Membership, MembershipDigest, MembershipVerify, MembershipAutoVerify, Incremental, IncrementalVerify, IncrementalAutoVerify) over a scripted RoundTripper; oracle: no panic, returns within the watchdog; distinct = distinct (target, outcome vector) pairs plus candidates")
	r.Assume("termination is checked with a 60 s watchdog per call (legitimate calls take microseconds); the watchdog can only fire on a real hang", "encoding/json is trusted")
	d, err := hx.NewDriver(hx.BPlus, "", 300)
	if err != nil {
		t.Fatal(err)
	}
	defer d.Close()
	names := []string{"X", "Y255", "Y24", "Z", "Sa", "Y128"}
	w := &world{snapJSON: map[uint64]string{}}
	for _, nd := range hx.ByName(names...) {
		w.digs = append(w.digs, nd.D)
		if _, err := d.Apply([][]byte{nd.D}, false); err != nil {
			t.Fatal(err)
		}
	}
	w.snaps = d.Snaps
	for v, s := range d.Snaps {
		ps := protocol.Snapshot(*s)
		w.snapJSON[uint64(v)] = string(enc(&protocol.SignedSnapshot{Snapshot: &ps, Signature: []byte("sig")}))
	}
	var cands []cand
	type gm struct {
		e int
		q uint64
	}
	gms := []gm{{2, 3}, {0, 5}, {5, 5}, {1, 1}}
	if r.Thorough() {
		for e := 0; e < 6; e++ {
			for q := uint64(e); q < 6; q++ {
				gms = append(gms, gm{e, q})
			}
		}
	}
	for gi, g := range gms {
		p, err := d.B.QueryDigestMembershipConsistency(w.digs[g.e], g.q)
		if err != nil {
			t.Fatal(err)
		}
		base := toDoc(protocol.ToMembershipResult([]byte("ev"), p))
		cands = append(cands, mutations("membership", base, []string{"Hyper", "History"}, []string{"CurrentVersion", "QueryVersion", "ActualVersion"}, []string{"KeyDigest", "Key"}, gi == 0 || r.Thorough())...)
	}
	type gi struct{ i, j uint64 }
	gis := []gi{{1, 4}, {0, 5}, {3, 3}}
	if r.Thorough() {
		for j := uint64(0); j < 6; j++ {
			for i := uint64(0); i <= j; i++ {
				gis = append(gis, gi{i, j})
			}
		}
	}
	for _, g := range gis {
		p, err := d.B.QueryConsistency(g.i, g.j)
		if err != nil {
			t.Fatal(err)
		}
		base := toDoc(protocol.ToIncrementalResponse(p))
		cands = append(cands, mutations("incremental", base, []string{"AuditPath"}, []string{"Start", "End"}, nil, true)...)
	}
	// hostile snapshot-store answers combined with genuine proof answers
	var genuineM, genuineI cand
	for _, c := range cands {
		if c.Edit == "genuine" && c.Kind == "membership" && genuineM.Body == "" {
			genuineM = c
		}
		if c.Edit == "genuine" && c.Kind == "incremental" && genuineI.Body == "" {
			genuineI = c
		}
	}
	for _, s := range []string{"null", "{}", "[]", "{\"Snapshot\":null}", "{\"Snapshot\":{}}", "{\"Snapshot\":{\"Version\":-1}}", "garbage", "{\"Snapshot\":{\"HistoryDigest\":\"AA==\",\"HyperDigest\":null}}"} {
		for _, g := range []cand{genuineM, genuineI} {
			c := g
			c.Edit = "genuine proof, snapshot store answers " + s
			c.Snap = s
			cands = append(cands, c)
		}
	}
	if r.Replay != "" {
		var rd struct {
			Detail struct {
				Cand   cand   `json:"candidate"`
				Target string `json:"target"`
			} `json:"detail"`
		}
		b, _ := os.ReadFile(r.Replay)
		json.Unmarshal(b, &rd)
		cands = []cand{rd.Detail.Cand}
	}
	r.Bound("candidates", len(cands))
	ev.ParallelFor(len(cands), runtime.NumCPU(), func(i int) {
		if !r.Mine(i) {
			return
		}
		c := cands[i]
		for _, tg := range []struct {
			name string
			f    func() string
		}{{"protocol.To*Proof + Verify", w.direct(c)}, {"client.HTTPClient", w.viaClient(c)}} {
			if c.Snap != "" && tg.name != "client.HTTPClient" {
				continue
			}
			o := guarded(tg.f)
			atomic.AddInt64(&steps, 1)
			r.Eval(1)
			det := map[string]interface{}{"candidate": c, "target": tg.name}
			switch {
			case o.hung:
				r.Violation("verification does not terminate ("+tg.name+", "+c.Kind+")", det)
			case o.panicked:
				det["panic"] = o.msg
				r.Violation("panic while decoding/verifying a hostile "+c.Kind+" answer ("+tg.name+"): "+normPanic(o.msg), det)
			default:
				r.Outcome(tg.name + c.Kind + o.res)
			}
		}
		r.Distinct(c.Kind + "|" + c.Edit)
		if i%211 == 0 {
			r.Sample(map[string]string{"kind": c.Kind, "edit": c.Edit})
		}
	})
	r.Finish()
}
