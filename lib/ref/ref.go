// Package ref holds the deliberately naive reference models of both QED trees.
// It shares no code with QED: only crypto/sha256 and encoding/binary.
package ref

import (
	"bytes"
	"crypto/sha256"
	"encoding/binary"
	"fmt"
	"math/bits"
	"sort"
)

func H(parts ...[]byte) []byte {
	h := sha256.New()
	for _, p := range parts {
		h.Write(p)
	}
	return h.Sum(nil)
}

// ---------------------------------------------------------------- history tree

type HPos struct {
	Index  uint64
	Height uint16
}

func (p HPos) Bytes() []byte {
	b := make([]byte, 10)
	binary.BigEndian.PutUint64(b, p.Index)
	binary.BigEndian.PutUint16(b[8:], p.Height)
	return b
}
func (p HPos) String() string { return fmt.Sprintf("%d|%d", p.Index, p.Height) }
func (p HPos) last() uint64   { return p.Index + (uint64(1) << p.Height) - 1 }

func RootHeight(v uint64) uint16 { return uint16(bits.Len64(v)) }

// HistoryNode is the hash of the subtree rooted at (i,h) in the tree of version v
// over digests[0..v]:  leaf H(d||pos), inner H(l||r||pos), partial H(l||pos).
func HistoryNode(d [][]byte, i uint64, h uint16, v uint64) []byte {
	p := HPos{i, h}
	if h == 0 {
		return H(d[i], p.Bytes())
	}
	ri := i + (uint64(1) << (h - 1))
	l := HistoryNode(d, i, h-1, v)
	if ri > v {
		return H(l, p.Bytes())
	}
	return H(l, HistoryNode(d, ri, h-1, v), p.Bytes())
}

func HistoryRoot(d [][]byte, v uint64) []byte { return HistoryNode(d, 0, RootHeight(v), v) }

type HPath map[HPos][]byte

// VerifyMembership recomputes the root of version `version` from the leaf `digest`
// at `index` and the siblings in path. ok=false if a needed sibling is absent.
func VerifyMembership(path HPath, index, version uint64, digest, root []byte) bool {
	if index > version {
		return false
	}
	var rec func(p HPos) ([]byte, bool)
	rec = func(p HPos) ([]byte, bool) {
		if p.Height == 0 {
			return H(digest, p.Bytes()), true
		}
		lp := HPos{p.Index, p.Height - 1}
		rp := HPos{p.Index + (uint64(1) << (p.Height - 1)), p.Height - 1}
		var l, r []byte
		var ok bool
		if index < rp.Index {
			if l, ok = rec(lp); !ok {
				return nil, false
			}
			if rp.Index > version {
				return H(l, p.Bytes()), true
			}
			if r, ok = path[rp]; !ok {
				return nil, false
			}
		} else {
			if l, ok = path[lp]; !ok {
				return nil, false
			}
			if r, ok = rec(rp); !ok {
				return nil, false
			}
		}
		return H(l, r, p.Bytes()), true
	}
	got, ok := rec(HPos{0, RootHeight(version)})
	return ok && bytes.Equal(got, root)
}

// NeededMembership lists the sibling positions an honest membership proof for
// (index, version) must contain (those VerifyMembership reads).
func NeededMembership(index, version uint64) []HPos {
	var out []HPos
	p := HPos{0, RootHeight(version)}
	for p.Height > 0 {
		lp := HPos{p.Index, p.Height - 1}
		rp := HPos{p.Index + (uint64(1) << (p.Height - 1)), p.Height - 1}
		if index < rp.Index {
			if rp.Index <= version {
				out = append(out, rp)
			}
			p = lp
		} else {
			out = append(out, lp)
			p = rp
		}
	}
	return out
}

// VerifyIncremental: both roots are recomputed from path alone; an entry may only be
// used where its whole subtree exists in the version being recomputed.
func VerifyIncremental(path HPath, start, end uint64, rootStart, rootEnd []byte) bool {
	if start > end {
		return false
	}
	var rec func(p HPos, v uint64) ([]byte, bool)
	rec = func(p HPos, v uint64) ([]byte, bool) {
		if x, ok := path[p]; ok && p.last() <= v {
			return x, true
		}
		if p.Height == 0 {
			return nil, false
		}
		lp := HPos{p.Index, p.Height - 1}
		rp := HPos{p.Index + (uint64(1) << (p.Height - 1)), p.Height - 1}
		l, ok := rec(lp, v)
		if !ok {
			return nil, false
		}
		if rp.Index > v {
			return H(l, p.Bytes()), true
		}
		r, ok := rec(rp, v)
		if !ok {
			return nil, false
		}
		return H(l, r, p.Bytes()), true
	}
	a, ok1 := rec(HPos{0, RootHeight(start)}, start)
	b, ok2 := rec(HPos{0, RootHeight(end)}, end)
	return ok1 && ok2 && bytes.Equal(a, rootStart) && bytes.Equal(b, rootEnd)
}

// ---------------------------------------------------------------- hyper tree

const HyperBits = 256
const HyperCacheLimit = 232 // 256 - 24

var hyperDefaults [][]byte

func init() {
	hyperDefaults = make([][]byte, HyperBits)
	hyperDefaults[0] = H([]byte{0}, []byte{0})
	for i := 1; i < HyperBits; i++ {
		hyperDefaults[i] = H(hyperDefaults[i-1], hyperDefaults[i-1])
	}
}

func HyperDefault(h int) []byte { return hyperDefaults[h] }

// hyperPos = be16(height) || prefix (32 bytes, bits below the prefix zero)
func hyperPos(prefix []byte, height int) []byte {
	b := make([]byte, 2+32)
	binary.BigEndian.PutUint16(b, uint16(height))
	copy(b[2:], prefix)
	return b
}

func HyperPosID(prefix []byte, height int) string { return fmt.Sprintf("%#x|%d", prefix, height) }

func bitAt(k []byte, i int) int { return int(k[i/8]>>(7-uint(i%8))) & 1 }

func maskPrefix(k []byte, nbits int) []byte {
	o := make([]byte, 32)
	for i := 0; i < nbits; i++ {
		if bitAt(k, i) == 1 {
			o[i/8] |= 1 << (7 - uint(i%8))
		}
	}
	return o
}

func pad32(version uint64) []byte {
	b := make([]byte, 32)
	binary.BigEndian.PutUint64(b[24:], version)
	return b
}

type HyperKV struct {
	Key     []byte
	Version uint64
}

// HyperNode: hash of the subtree at (prefix of `depth` bits) over the sorted key set kvs
// (all of which lie under the prefix).
func hyperNode(kvs []HyperKV, prefix []byte, depth int) []byte {
	h := HyperBits - depth
	if len(kvs) == 0 {
		return hyperDefaults[h]
	}
	if h <= HyperCacheLimit && len(kvs) == 1 {
		return H(pad32(kvs[0].Version), hyperPos(prefix, h))
	}
	if h == 0 {
		panic("ref: two keys at a leaf")
	}
	split := sort.Search(len(kvs), func(i int) bool { return bitAt(kvs[i].Key, depth) == 1 })
	lp := prefix
	rp := append([]byte{}, prefix...)
	rp[depth/8] |= 1 << (7 - uint(depth%8))
	l := hyperNode(kvs[:split], lp, depth+1)
	r := hyperNode(kvs[split:], rp, depth+1)
	return H(r, l, hyperPos(prefix, h)) // sic: right || left || pos (LIFO operation stack)
}

// HyperRoot of the map digest->version.
func HyperRoot(m map[string]uint64) []byte {
	kvs := make([]HyperKV, 0, len(m))
	for k, v := range m {
		kvs = append(kvs, HyperKV{[]byte(k), v})
	}
	sort.Slice(kvs, func(i, j int) bool { return bytes.Compare(kvs[i].Key, kvs[j].Key) < 0 })
	return hyperNode(kvs, make([]byte, 32), 0)
}

// HyperLeafHeight: the height of the shortcut leaf of key in the set (key must be a member).
func HyperLeafHeight(m map[string]uint64, key []byte) int {
	for h := HyperCacheLimit; h >= 0; h-- {
		depth := HyperBits - h
		n := 0
		for k := range m {
			if bytes.Equal(maskPrefix([]byte(k), depth), maskPrefix(key, depth)) {
				n++
			}
		}
		if n == 1 {
			return h
		}
	}
	panic("ref: duplicate key")
}

type HyperPath map[string][]byte

// VerifyHyper recomputes the root from (key -> version) placed at the height implied by
// the number of path entries.
func VerifyHyper(path HyperPath, key []byte, version uint64, root []byte) bool {
	if len(path) == 0 || len(path) > HyperBits || len(key) != 32 {
		return false
	}
	leafH := HyperBits - len(path)
	cur := H(pad32(version), hyperPos(maskPrefix(key, HyperBits-leafH), leafH))
	for h := leafH + 1; h <= HyperBits; h++ {
		depth := HyperBits - h // the bit decided at this node
		prefix := maskPrefix(key, depth)
		var sib []byte
		var ok bool
		if bitAt(key, depth) == 0 {
			rp := append([]byte{}, prefix...)
			rp[depth/8] |= 1 << (7 - uint(depth%8))
			sib, ok = path[HyperPosID(rp, h-1)]
			if !ok {
				return false
			}
			cur = H(sib, cur, hyperPos(prefix, h))
		} else {
			sib, ok = path[HyperPosID(prefix, h-1)]
			if !ok {
				return false
			}
			cur = H(cur, sib, hyperPos(prefix, h))
		}
	}
	return bytes.Equal(cur, root)
}

// ---------------------------------------------------------------- the log

// Log is the list of accepted digests.
type Log struct{ D [][]byte }

func (l *Log) Append(d []byte)     { l.D = append(l.D, d) }
func (l *Log) Len() uint64         { return uint64(len(l.D)) }
func (l *Log) Versions(d []byte) (vs []uint64) {
	for i, x := range l.D {
		if bytes.Equal(x, d) {
			vs = append(vs, uint64(i))
		}
	}
	return
}

// HyperMapLatest: digest -> greatest version ≤ upto (what sequential single adds produce).
func (l *Log) HyperMapLatest(upto uint64) map[string]uint64 {
	m := map[string]uint64{}
	for i := uint64(0); i <= upto && i < l.Len(); i++ {
		m[string(l.D[i])] = i
	}
	return m
}
