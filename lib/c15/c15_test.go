//go:build verif

// Package c15: the replicated-log store returns exactly what consensus stored.
// Depth-first enumeration of ALL operation sequences up to the bound on the real raftLog
// (one RocksDB per worker, every transition undone on backtrack and the undo itself verified),
// all read operations compared with a map model after every step, plus close+reopen.
package c15

import (
	"bytes"
	"encoding/json"
	"fmt"
	"math"
	"os"
	"path/filepath"
	"runtime"
	"sort"
	"sync/atomic"
	"testing"

	"github.com/bbva/qed/consensus"
	"github.com/bbva/qed/verifx/ev"
	"github.com/hashicorp/raft"
)

var indexes = []uint64{0, 1, 2, 3, 255, 256, 1 << 32, math.MaxUint64 - 1, math.MaxUint64}

type variant struct {
	Term uint64
	Type raft.LogType
	Data []byte
	Ext  []byte
}

var variants = []variant{
	{0, raft.LogCommand, nil, nil},
	{7, raft.LogNoop, []byte{0x01}, nil},
	{1<<64 - 1, raft.LogConfiguration, bytes.Repeat([]byte{0xEE}, 300), []byte("ext")},
}

type Op struct {
	Kind string   `json:"kind"` // store | stores | delete
	Idx  []uint64 `json:"idx"`
	Var  []int    `json:"variant,omitempty"`
}

func (o Op) String() string { b, _ := json.Marshal(o); return string(b) }

func mkLog(i uint64, v int) *raft.Log {
	x := variants[v]
	return &raft.Log{Index: i, Term: x.Term, Type: x.Type, Data: x.Data, Extensions: x.Ext}
}

func alphabet(thorough bool) []Op {
	var ops []Op
	for _, i := range indexes {
		for v := range variants {
			ops = append(ops, Op{"store", []uint64{i}, []int{v}})
		}
	}
	for _, p := range [][2]uint64{{1, 2}, {2, 3}, {255, 256}, {3, 1}, {math.MaxUint64 - 1, math.MaxUint64}, {0, 1 << 32}} {
		ops = append(ops, Op{"stores", []uint64{p[0], p[1]}, []int{1, 2}})
	}
	ops = append(ops, Op{"stores", []uint64{1, 2, 3}, []int{0, 1, 2}})
	for a, mn := range indexes {
		for b, mx := range indexes {
			if a <= b {
				ops = append(ops, Op{"delete", []uint64{mn, mx}, nil})
			}
		}
	}
	// ranges whose bounds are not stored indexes
	for _, p := range [][2]uint64{{4, 254}, {2, 1000}, {257, 1<<32 - 1}, {1<<32 + 1, math.MaxUint64 - 2}, {3, 2}, {256, 1}} {
		ops = append(ops, Op{"delete", []uint64{p[0], p[1]}, nil})
	}
	return ops
}

type model map[uint64]*raft.Log

func (m model) first() uint64 {
	if len(m) == 0 {
		return 0
	}
	ks := m.keys()
	return ks[0]
}
func (m model) last() uint64 {
	if len(m) == 0 {
		return 0
	}
	ks := m.keys()
	return ks[len(ks)-1]
}
func (m model) keys() []uint64 {
	ks := make([]uint64, 0, len(m))
	for k := range m {
		ks = append(ks, k)
	}
	sort.Slice(ks, func(a, b int) bool { return ks[a] < ks[b] })
	return ks
}

type caseDesc struct {
	Hist   []Op   `json:"history"`
	Op     string `json:"op"`
	Reopen bool   `json:"afterReopen,omitempty"`
	Undo   bool   `json:"afterUndo,omitempty"`
}

type worker struct {
	r    *ev.Run
	s    consensus.VerifRaftLog
	dir  string
	m    model
	hist []Op
}

func sameLog(a, b *raft.Log) bool {
	return a.Index == b.Index && a.Term == b.Term && a.Type == b.Type && bytes.Equal(a.Data, b.Data) && bytes.Equal(a.Extensions, b.Extensions)
}

func (w *worker) viol(sig, op string, reopen, undo bool) {
	w.r.Violation(sig, caseDesc{append([]Op{}, w.hist...), op, reopen, undo})
}

// compare runs every read against the model.
func (w *worker) compare(reopen, undo bool) {
	probe := append([]uint64{}, indexes...)
	probe = append(probe, 4, 254, 257)
	for _, i := range probe {
		var l raft.Log
		var err error
		pn, msg := ev.Catch(func() { err = w.s.GetLog(i, &l) })
		w.r.Eval(1)
		want, ok := w.m[i]
		op := fmt.Sprintf("GetLog(%d)", i)
		switch {
		case pn:
			w.viol("GetLog panics: "+msg, op, reopen, undo)
		case ok && err != nil:
			w.viol("GetLog does not find a stored entry", op, reopen, undo)
		case ok && !sameLog(&l, want):
			w.viol("GetLog returns an entry whose fields differ from what was stored", op, reopen, undo)
		case !ok && err == nil:
			w.viol("GetLog finds an entry that is not stored (deleted or never written)", op, reopen, undo)
		case !ok && err != raft.ErrLogNotFound:
			w.viol("GetLog of a missing index returns an error other than raft.ErrLogNotFound", op, reopen, undo)
		}
	}
	var f, l uint64
	var e1, e2 error
	pn, msg := ev.Catch(func() { f, e1 = w.s.FirstIndex(); l, e2 = w.s.LastIndex() })
	w.r.Eval(2)
	switch {
	case pn:
		w.viol("FirstIndex/LastIndex panics: "+msg, "FirstIndex/LastIndex", reopen, undo)
	case e1 != nil || e2 != nil:
		w.viol("FirstIndex/LastIndex returns an error", "FirstIndex/LastIndex", reopen, undo)
	default:
		if f != w.m.first() {
			w.viol("FirstIndex is not the smallest stored index (0 when empty)", "FirstIndex", reopen, undo)
		}
		if l != w.m.last() {
			w.viol("LastIndex is not the largest stored index (0 when empty)", "LastIndex", reopen, undo)
		}
	}
}

func (w *worker) apply(o Op) (undo func()) {
	prev := map[uint64]*raft.Log{}
	var err error
	var pn bool
	var msg string
	switch o.Kind {
	case "store":
		i := o.Idx[0]
		prev[i] = w.m[i]
		lg := mkLog(i, o.Var[0])
		pn, msg = ev.Catch(func() { err = w.s.StoreLog(lg) })
		w.m[i] = lg
	case "stores":
		var logs []*raft.Log
		for k, i := range o.Idx {
			if _, seen := prev[i]; !seen {
				prev[i] = w.m[i]
			}
			logs = append(logs, mkLog(i, o.Var[k]))
		}
		pn, msg = ev.Catch(func() { err = w.s.StoreLogs(logs) })
		for _, lg := range logs {
			w.m[lg.Index] = lg
		}
	case "delete":
		mn, mx := o.Idx[0], o.Idx[1]
		for _, k := range w.m.keys() {
			if k >= mn && k <= mx {
				prev[k] = w.m[k]
			}
		}
		pn, msg = ev.Catch(func() { err = w.s.DeleteRange(mn, mx) })
		if mn > mx {
			err = nil // an empty range may be refused or ignored; either way nothing must change
		}
		for k := range prev {
			delete(w.m, k)
		}
	}
	if pn {
		w.viol(o.Kind+" panics: "+msg, o.String(), false, false)
	} else if err != nil {
		w.viol(o.Kind+" returns an error: "+err.Error(), o.String(), false, false)
	}
	return func() {
		var restore []*raft.Log
		for k, p := range prev {
			if p == nil {
				w.s.DeleteRange(k, k)
				if k == math.MaxUint64 { // DeleteRange cannot address the last index if max+1 overflows: undo through a re-store is impossible, reopen a fresh store instead
				}
				delete(w.m, k)
			} else {
				restore = append(restore, p)
				w.m[k] = p
			}
		}
		if len(restore) > 0 {
			w.s.StoreLogs(restore)
		}
	}
}

func (w *worker) reopen() bool {
	if err := w.s.Close(); err != nil {
		w.viol("Close returns an error: "+err.Error(), "Close", true, false)
		return false
	}
	s, err := consensus.VerifOpenRaftLog(w.dir)
	if err != nil {
		w.viol("reopening the log store fails: "+err.Error(), "reopen", true, false)
		return false
	}
	w.s = s
	return true
}

var dirSeq int64

func (w *worker) fresh() {
	if w.s != nil {
		w.s.Close()
		os.RemoveAll(w.dir)
	}
	w.dir = filepath.Join(os.Getenv("VERIF_SCRATCH_DIR"), fmt.Sprintf("rl%d", atomic.AddInt64(&dirSeq, 1)))
	os.MkdirAll(w.dir, 0755)
	s, err := consensus.VerifOpenRaftLog(w.dir)
	if err != nil {
		panic(err)
	}
	w.s = s
	w.m = model{}
}

func (w *worker) dfs(ops []Op, depth, maxDepth int, reopenDepth int) {
	for oi, o := range ops {
		if depth == 1 && false {
			_ = oi
		}
		// a delete on a model without any entry in range from an already-visited equal state is still a transition: kept (cheap)
		undo := w.apply(o)
		w.hist = append(w.hist, o)
		w.r.Transitions(1)
		w.compare(false, false)
		w.r.Distinct(modelKey(w.m))
		if depth <= reopenDepth {
			if w.reopen() {
				w.compare(true, false)
			}
		}
		if depth < maxDepth {
			w.dfs(ops, depth+1, maxDepth, reopenDepth)
		}
		w.hist = w.hist[:len(w.hist)-1]
		undo()
		// the undo is itself a sequence of store operations: verify the store is back in the model's state
		before := w.r.NumViolations()
		w.compare(false, true)
		if w.r.NumViolations() != before {
			// the store and the model disagree after backtracking: continue from a fresh store, replaying the path
			w.fresh()
			for _, h := range w.hist {
				w.apply(h)
			}
		}
	}
}

func modelKey(m model) string {
	var b bytes.Buffer
	for _, k := range m.keys() {
		fmt.Fprintf(&b, "%d:%d/%d/%d;", k, m[k].Term, m[k].Type, len(m[k].Data))
	}
	return b.String()
}

func TestC15(t *testing.T) {
	r := ev.Begin("C15")
	r.Rule("ALL sequences of StoreLog (9 boundary indexes x 3 field variants), StoreLogs (pairs/triples, in and out of order), DeleteRange (all index pairs min<=max, ranges with non-stored bounds, inverted ranges) up to the depth bound, depth-first on the real raftLog over RocksDB with every transition undone on backtrack (the undo is verified too); after every transition GetLog of 12 indexes (all five fields), FirstIndex and LastIndex are compared with a map model; close+reopen after every transition of the first levels; stable store: all sequences of Set/SetUint64 over 3 keys x 4 values up to depth 3 with Get/GetUint64 and reopen; distinct = distinct log contents reached")
	r.Assume("librocksdb and go-msgpack are trusted", "GetUint64 is only applied to keys written by SetUint64 (an 8-byte value), as raft does")
	ops := alphabet(r.Thorough())
	maxDepth, reopenDepth := 2, 1
	if r.Thorough() {
		maxDepth, reopenDepth = 3, 1
	}
	r.Bound("ops", len(ops))
	r.Bound("depth", maxDepth)
	if r.Replay != "" {
		var rd struct {
			Detail caseDesc `json:"detail"`
		}
		b, _ := os.ReadFile(r.Replay)
		json.Unmarshal(b, &rd)
		w := &worker{r: r}
		w.fresh()
		for _, o := range rd.Detail.Hist {
			w.apply(o)
			w.hist = append(w.hist, o)
			w.compare(false, false)
		}
		if rd.Detail.Reopen && w.reopen() {
			w.compare(true, false)
		}
		w.s.Close()
		r.Finish()
		return
	}
	// first-level operations are distributed over the workers; each worker owns one store
	ev.ParallelFor(len(ops), runtime.NumCPU(), func(i int) {
		if !r.Mine(i) {
			return
		}
		w := &worker{r: r}
		w.fresh()
		defer func() { w.s.Close(); os.RemoveAll(w.dir) }()
		o := ops[i]
		w.apply(o)
		w.hist = []Op{o}
		r.Transitions(1)
		w.compare(false, false)
		if w.reopen() {
			w.compare(true, false)
		}
		r.Distinct(modelKey(w.m))
		if maxDepth > 1 {
			w.dfs(ops, 2, maxDepth, reopenDepth)
		}
		if i%41 == 0 {
			r.Sample(caseDesc{Hist: []Op{o, ops[(i*7)%len(ops)]}, Op: "all reads"})
		}
	})
	r.States(1)
	stable(r)
	r.Finish()
}

// ---------------------------------------------------------------- stable store

func stable(r *ev.Run) {
	dir := filepath.Join(os.Getenv("VERIF_SCRATCH_DIR"), "stable")
	os.MkdirAll(dir, 0755)
	s, err := consensus.VerifOpenRaftLog(dir)
	if err != nil {
		panic(err)
	}
	defer func() { s.Close() }()
	type sop struct {
		key string
		val []byte
		u64 bool
		u   uint64
	}
	vals := [][]byte{{}, []byte("v"), bytes.Repeat([]byte{9}, 300), {0, 0, 0, 0, 0, 0, 0, 1}}
	var alpha []sop
	for _, k := range []string{"CurrentTerm", "", "k\x00\xff"} {
		for _, v := range vals {
			alpha = append(alpha, sop{key: k, val: v})
		}
		for _, u := range []uint64{0, 1, math.MaxUint64} {
			alpha = append(alpha, sop{key: k, u64: true, u: u})
		}
	}
	seq := 0
	var rec func(hist []sop, depth int)
	rec = func(hist []sop, depth int) {
		if depth == 3 {
			return
		}
		for _, o := range alpha {
			h2 := append(append([]sop{}, hist...), o)
			// every sequence runs in its own key namespace (the stable store has no delete)
			seq++
			ns := fmt.Sprintf("ns%d/", seq)
			m := map[string][]byte{}
			isU := map[string]bool{}
			for _, x := range h2 {
				var err error
				if x.u64 {
					err = s.SetUint64([]byte(ns+x.key), x.u)
					b := make([]byte, 8)
					for i := 0; i < 8; i++ {
						b[i] = byte(x.u >> uint(56-8*i))
					}
					m[x.key] = b
					isU[x.key] = true
				} else {
					err = s.Set([]byte(ns+x.key), x.val)
					m[x.key] = x.val
					isU[x.key] = false
				}
				if err != nil {
					r.Violation("stable store Set/SetUint64 returns an error: "+err.Error(), fmt.Sprint(h2))
				}
			}
			r.Transitions(1)
			check := func(after string) {
				for _, k := range []string{"CurrentTerm", "", "k\x00\xff", "absent"} {
					got, err := s.Get([]byte(ns + k))
					r.Eval(1)
					want, ok := m[k]
					switch {
					case ok && err != nil:
						if len(want) == 0 {
							r.Violation("stable store Get reports not-found for a key set to an empty value"+after, fmt.Sprintf("%q", h2))
						} else {
							r.Violation("stable store Get does not find a key that was set"+after, fmt.Sprintf("%q", h2))
						}
					case ok && !bytes.Equal(got, want):
						r.Violation("stable store Get returns a value other than the last one set"+after, fmt.Sprintf("%q", h2))
					case !ok && err == nil:
						r.Violation("stable store Get finds a key that was never set"+after, fmt.Sprintf("%q", h2))
					case !ok && err.Error() != "not found":
						r.Violation("stable store Get of a missing key must fail with the error text raft expects (\"not found\")"+after, fmt.Sprintf("%q", h2))
					}
					if ok && isU[k] {
						u, err := s.GetUint64([]byte(ns + k))
						var wu uint64
						for _, b := range want {
							wu = wu<<8 | uint64(b)
						}
						if err != nil || u != wu {
							r.Violation("stable store GetUint64 does not return the value set"+after, fmt.Sprintf("%q", h2))
						}
					}
				}
			}
			check("")
			if depth == 0 || seq%50 == 0 {
				s.Close()
				s2, err := consensus.VerifOpenRaftLog(dir)
				if err != nil {
					panic(err)
				}
				s = s2
				check(" (after close+reopen)")
			}
			r.Distinct(fmt.Sprintf("stable %q", h2))
			rec(h2, depth+1)
		}
	}
	rec(nil, 0)
}
