//go:build verif

// Package c03: consistency (incremental) proofs verify for every version pair and are
// rejected against any other digest, any forked log's digest and any altered proof.
package c03

import (
	"bytes"
	"fmt"
	"runtime"
	"sort"
	"strings"
	"testing"

	"github.com/bbva/qed/balloon"
	"github.com/bbva/qed/balloon/history"
	"github.com/bbva/qed/crypto/hashing"
	"github.com/bbva/qed/verifx/ev"
	"github.com/bbva/qed/verifx/hx"
	"github.com/bbva/qed/verifx/ref"
)

func normPanic(msg string) string {
	if i := strings.Index(msg, "\n"); i >= 0 {
		msg = msg[:i]
	}
	var b strings.Builder
	prev := false
	for _, ch := range msg {
		if ch >= '0' && ch <= '9' {
			if !prev {
				b.WriteByte('#')
			}
			prev = true
		} else {
			b.WriteRune(ch)
			prev = false
		}
	}
	s := b.String()
	if len(s) > 120 {
		s = s[:120]
	}
	return s
}

func refPath(p history.AuditPath) ref.HPath {
	hp := ref.HPath{}
	for k, v := range p.Serialize() {
		var i uint64
		var h uint16
		fmt.Sscanf(k, "%d|%d", &i, &h)
		hp[ref.HPos{Index: i, Height: h}] = v
	}
	return hp
}

func snapH(d []byte) *balloon.Snapshot { return &balloon.Snapshot{HistoryDigest: d} }

// verify returns (accepted, panicked)
func verify(p *balloon.IncrementalProof, s, e []byte) (bool, bool) {
	var ok bool
	pn, _ := ev.Catch(func() { ok = p.Verify(snapH(s), snapH(e)) })
	return ok && !pn, pn
}

type pairCase struct {
	N    int    `json:"n"`
	Comp string `json:"composition"`
	I    uint64 `json:"i"`
	J    uint64 `json:"j"`
	What string `json:"what"`
	Arg  string `json:"arg,omitempty"`
}

func clonePath(p history.AuditPath) history.AuditPath {
	o := history.AuditPath{}
	for k, v := range p {
		o[k] = append([]byte{}, v...)
	}
	return o
}

func sortedKeys(p history.AuditPath) [][10]byte {
	ks := make([][10]byte, 0, len(p))
	for k := range p {
		ks = append(ks, k)
	}
	sort.Slice(ks, func(a, b int) bool { return bytes.Compare(ks[a][:], ks[b][:]) < 0 })
	return ks
}

func compFor(name string, n int) []int {
	var out []int
	switch name {
	case "singles":
		for i := 0; i < n; i++ {
			out = append(out, 1)
		}
	case "onebulk":
		out = []int{n}
	case "mixed":
		k := 1
		for left := n; left > 0; {
			if k > left {
				k = left
			}
			out = append(out, k)
			left -= k
			k = k%3 + 1
		}
	}
	return out
}

func TestC03(t *testing.T) {
	r := ev.Begin("C03")
	r.Rule("log of n sequential digests built in three groupings; ALL pairs i<=j<n: honest proof (real QueryConsistency -> JSON -> real IncrementalProof.Verify, and reference verifier) must be accepted; then every other version's digest at either end, every fork point f<=j (digests of a log that diverges at f, from the reference tree), every single audit-path entry flipped/removed/replaced by the fork's node at the same position, and Start/End +-1 must be rejected; distinct = distinct (i,j) pairs x alteration kinds")
	r.Assume("SHA-256 collision resistance", "fork digests are computed with the reference history tree, which C04 binds to the implementation", "a panic of the verifier counts as a rejection here; totality of the verifier is C12")
	N := 66
	if r.Thorough() {
		N = 130
	}
	r.Bound("n", N)
	comps := []string{"singles", "onebulk", "mixed"}
	digests := make([][]byte, N)
	for i := range digests {
		digests[i] = hx.SeqDigest(i)
	}
	// fork f: equal to the main log below f, different from f on
	forkDigests := func(f int) [][]byte {
		o := make([][]byte, N)
		for i := range o {
			if i < f {
				o[i] = digests[i]
			} else {
				o[i] = hx.SeqDigest(100000 + i)
			}
		}
		return o
	}
	for ci, comp := range comps {
		d, err := hx.NewDriver(hx.BPlus, "", 300)
		if err != nil {
			t.Fatal(err)
		}
		lg := &ref.Log{}
		pos := 0
		for _, size := range compFor(comp, N) {
			pn, msg := ev.Catch(func() {
				if _, err := d.Apply(digests[pos:pos+size], false); err != nil {
					panic(err)
				}
			})
			if pn {
				r.Violation("insertion fails: "+normPanic(msg), pairCase{N: N, Comp: comp})
				break
			}
			for _, x := range digests[pos : pos+size] {
				lg.Append(x)
			}
			pos += size
			// honest proofs whose end is the current version, at every intermediate size
			cur := lg.Len() - 1
			for i := uint64(0); i <= cur; i++ {
				honest(r, d, N, comp, i, cur)
			}
		}
		if pos != N {
			d.Close()
			continue
		}
		// range validation
		for _, bad := range [][2]uint64{{1, 0}, {0, uint64(N)}, {uint64(N), uint64(N)}, {uint64(N - 1), uint64(N)}, {5, 4}, {0, 1 << 63}, {^uint64(0), ^uint64(0)}} {
			var e error
			pn, msg := ev.Catch(func() { _, e = d.B.QueryConsistency(bad[0], bad[1]) })
			r.Eval(1)
			if pn {
				r.Violation("QueryConsistency panics on an invalid range: "+normPanic(msg), pairCase{N: N, Comp: comp, I: bad[0], J: bad[1], What: "range"})
			} else if e == nil {
				r.Violation("QueryConsistency accepts an invalid range", pairCase{N: N, Comp: comp, I: bad[0], J: bad[1], What: "range"})
			}
		}
		// all pairs at the final size, with alterations (pairs are spread over the worker pool)
		type pr struct{ i, j uint64 }
		var pairs []pr
		for j := uint64(0); j < uint64(N); j++ {
			for i := uint64(0); i <= j; i++ {
				pairs = append(pairs, pr{i, j})
			}
		}
		// fork roots: forkRoot[f][v]
		forkRoot := make([][][]byte, N+1)
		forkD := make([][][]byte, N+1)
		ev.ParallelFor(N, runtime.NumCPU(), func(f int) {
			fd := forkDigests(f)
			forkD[f] = fd
			forkRoot[f] = make([][]byte, N)
			for v := f; v < N; v++ {
				forkRoot[f][v] = ref.HistoryRoot(fd, uint64(v))
			}
		})
		ev.ParallelFor(len(pairs), runtime.NumCPU(), func(k int) {
			if !r.Mine(k) {
				return
			}
			i, j := pairs[k].i, pairs[k].j
			p := honest(r, d, N, comp, i, j)
			if p == nil {
				return
			}
			if ci != 0 && (i+j)%5 != 0 && !r.Thorough() {
				return // alterations in full on the first grouping; a fifth of the pairs on the others (quick)
			}
			r.Guard("altering and re-verifying a genuine incremental proof (the proof changed after it was handed out?)", pairCase{N: N, Comp: comp, I: i, J: j, What: "alter"}, func() {
				alter(r, d, N, comp, i, j, p, forkRoot, forkD)
			})
		})
		if ci == 0 {
			r.Sample(pairCase{N: N, Comp: comp, I: 3, J: uint64(N - 1), What: "honest + all alterations"})
		}
		d.Close()
	}
	r.Finish()
}

func honest(r *ev.Run, d *hx.Driver, N int, comp string, i, j uint64) *balloon.IncrementalProof {
	var p, w *balloon.IncrementalProof
	c := pairCase{N: N, Comp: comp, I: i, J: j, What: "honest"}
	pn, msg := ev.Catch(func() {
		var err error
		p, err = d.B.QueryConsistency(i, j)
		if err != nil {
			panic("error: " + err.Error())
		}
		w, _, err = hx.WireIncremental(p)
		if err != nil {
			panic("error: " + err.Error())
		}
	})
	r.Eval(1)
	if pn {
		r.Violation("QueryConsistency fails for a valid pair: "+normPanic(msg), c)
		return nil
	}
	if p.Start != i || p.End != j {
		r.Violation("incremental proof carries the wrong versions", c)
	}
	si, sj := d.Snaps[i].HistoryDigest, d.Snaps[j].HistoryDigest
	ok, pnv := verify(w, si, sj)
	if pnv {
		r.Violation("verifier panics on a genuine incremental proof", c)
	} else if !ok {
		r.Violation("genuine incremental proof rejected (after the JSON round trip)", c)
	}
	if ok2, _ := verify(p, si, sj); !ok2 {
		r.Violation("genuine incremental proof rejected (in-process)", c)
	}
	if !ref.VerifyIncremental(refPath(p.AuditPath), i, j, si, sj) {
		r.Violation("genuine incremental audit path does not recompute both history digests (reference verifier)", c)
	}
	r.Distinct(fmt.Sprintf("honest %d-%d", i, j))
	r.Outcome(fmt.Sprintf("len=%d", len(p.AuditPath)))
	return p
}

func alter(r *ev.Run, d *hx.Driver, N int, comp string, i, j uint64, p *balloon.IncrementalProof, forkRoot [][][]byte, forkD [][][]byte) {
	si, sj := d.Snaps[i].HistoryDigest, d.Snaps[j].HistoryDigest
	acc := func(what, arg string, q *balloon.IncrementalProof, s, e []byte) {
		r.Eval(1)
		ok, _ := verify(q, s, e)
		if ok {
			r.Violation("incremental proof accepted although "+what, pairCase{N: N, Comp: comp, I: i, J: j, What: what, Arg: arg})
		}
	}
	// (a) any other version's digest at either end
	for k := 0; k < N; k++ {
		dk := d.Snaps[k].HistoryDigest
		if uint64(k) != i {
			acc("the start digest was replaced by another version's digest", fmt.Sprint(k), p, dk, sj)
		}
		if uint64(k) != j {
			acc("the end digest was replaced by another version's digest", fmt.Sprint(k), p, si, dk)
		}
	}
	r.Distinct(fmt.Sprintf("otherdigest %d-%d", i, j))
	// (b) digests of a log that diverged at f <= j
	for f := 0; uint64(f) <= j; f++ {
		acc("the end digest is that of a log forked at or before the end version", fmt.Sprint(f), p, si, forkRoot[f][j])
		if uint64(f) <= i {
			acc("the start digest is that of a forked log", fmt.Sprint(f), p, forkRoot[f][i], sj)
			acc("both digests are those of a forked log (proof from the honest log)", fmt.Sprint(f), p, forkRoot[f][i], forkRoot[f][j])
		}
	}
	r.Distinct(fmt.Sprintf("fork %d-%d", i, j))
	// (c) single-entry alterations of the audit path
	for _, k := range sortedKeys(p.AuditPath) {
		q := *p
		q.AuditPath = clonePath(p.AuditPath)
		q.AuditPath[k][0] ^= 1
		acc("an audit-path entry was flipped", fmt.Sprintf("%x", k), &q, si, sj)
		q.AuditPath = clonePath(p.AuditPath)
		delete(q.AuditPath, k)
		acc("an audit-path entry was removed", fmt.Sprintf("%x", k), &q, si, sj)
		// replaced by the node at the same position of a log forked inside that node's range
		var idx uint64
		var h uint16
		fmt.Sscanf(fmt.Sprintf("%d|%d", beU64(k[:8]), uint16(k[8])<<8|uint16(k[9])), "%d|%d", &idx, &h)
		f := int(idx)
		last := idx + (uint64(1) << h) - 1
		if last < uint64(N) {
			q.AuditPath = clonePath(p.AuditPath)
			q.AuditPath[k] = ref.HistoryNode(forkD[f], idx, h, last)
			acc("an audit-path entry was replaced by the forked log's node at that position", fmt.Sprintf("%x", k), &q, si, sj)
		}
	}
	r.Distinct(fmt.Sprintf("path %d-%d", i, j))
	// (d) versions altered
	for _, dv := range [][2]int64{{1, 0}, {-1, 0}, {0, 1}, {0, -1}, {1, 1}, {-1, -1}} {
		ns, ne := int64(i)+dv[0], int64(j)+dv[1]
		if ns < 0 || ne < 0 {
			continue
		}
		q := balloon.NewIncrementalProof(uint64(ns), uint64(ne), clonePath(p.AuditPath), hashing.NewSha256Hasher())
		acc("the proof's versions were altered", fmt.Sprintf("%d,%d", dv[0], dv[1]), q, si, sj)
	}
	r.Distinct(fmt.Sprintf("versions %d-%d", i, j))
}

func beU64(b []byte) uint64 {
	var x uint64
	for _, c := range b {
		x = x<<8 | uint64(c)
	}
	return x
}
