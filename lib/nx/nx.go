//go:build verif

// Package nx: a REAL single-node QED server (real raft, both RocksDB databases, the real API and
// management muxes) in a child process, driven over a stdin/stdout line protocol. The child is the
// harness test binary re-executed with VERIF_CHILD=node (call nx.ChildMain from TestMain).
package nx

import (
	"bufio"
	"bytes"
	"encoding/json"
	"fmt"
	"io"
	"net"
	"net/http"
	"net/http/httptest"
	"os"
	"os/exec"
	"strconv"
	"strings"
	"sync/atomic"
	"syscall"
	"time"

	"github.com/bbva/qed/api/apihttp"
	"github.com/bbva/qed/api/mgmthttp"
	"github.com/bbva/qed/consensus"
	"github.com/bbva/qed/log"
	"github.com/bbva/qed/protocol"
	"github.com/bbva/qed/storage"
	"github.com/bbva/qed/storage/rocks"
	"github.com/bbva/qed/verifx/hx"
)

type Req struct {
	Op     string `json:"op"` // http | close | state | barrier | snapshot | exit
	Mux    string `json:"mux,omitempty"`
	Method string `json:"method,omitempty"`
	Path   string `json:"path,omitempty"`
	Body   []byte `json:"body,omitempty"`
	NoBody bool   `json:"noBody,omitempty"`
}

type Resp struct {
	Status     int    `json:"status"`
	Body       []byte `json:"body,omitempty"`
	Panic      string `json:"panic,omitempty"`
	Err        string `json:"err,omitempty"`
	Version    uint64 `json:"version,omitempty"`
	Tables     string `json:"tables,omitempty"`
	Boundaries int64  `json:"boundaries,omitempty"`
	FsmIndex   uint64 `json:"fsmIndex,omitempty"`
	FsmVersion uint64 `json:"fsmVersion,omitempty"`
	RaftLast   uint64 `json:"raftLastIndex,omitempty"` // raft's last log index (log or snapshot)
}

// ---------------------------------------------------------------- child

type killStore struct {
	storage.ManagedStore
}

func (k killStore) Mutate(m []*storage.Mutation, meta []byte) error {
	boundary("fsmstore.Mutate:enter")
	defer boundary("fsmstore.Mutate:exit")
	return k.ManagedStore.Mutate(m, meta)
}

var (
	boundaries int64
	killAt     int64
	traceW     io.Writer
)

func boundary(where string) {
	n := atomic.AddInt64(&boundaries, 1)
	if traceW != nil {
		fmt.Fprintf(traceW, "%d %s\n", n, where)
	}
	if killAt > 0 && n == killAt {
		syscall.Kill(os.Getpid(), syscall.SIGKILL)
		select {} // never reached
	}
}

func freeAddr() string {
	l, err := net.Listen("tcp", "127.0.0.1:0")
	if err != nil {
		panic(err)
	}
	defer l.Close()
	return l.Addr().String()
}

// ChildMain runs the node child if VERIF_CHILD=node; returns false otherwise.
func ChildMain() bool {
	if os.Getenv("VERIF_CHILD") != "node" {
		return false
	}
	dbDir, raftDir := os.Getenv("VERIF_DB"), os.Getenv("VERIF_RAFT")
	killAt, _ = strconv.ParseInt(os.Getenv("KILL_AT"), 10, 64)
	if p := os.Getenv("VERIF_TRACE"); p != "" {
		f, _ := os.OpenFile(p, os.O_CREATE|os.O_APPEND|os.O_WRONLY, 0644)
		traceW = f
	}
	consensus.VerifBoundaryHook = boundary
	out := bufio.NewWriter(os.Stdout)
	reply := func(r Resp) {
		b, _ := json.Marshal(r)
		out.Write(b)
		out.WriteByte('\n')
		out.Flush()
	}
	os.MkdirAll(dbDir, 0755)
	os.MkdirAll(raftDir, 0755)
	rs, err := rocks.NewRocksDBStore(dbDir, 0)
	if err != nil {
		reply(Resp{Err: "open store: " + err.Error()})
		os.Exit(3)
	}
	snapCh := make(chan *protocol.Snapshot, 1<<16)
	go func() {
		for range snapCh {
		}
	}()
	opts := consensus.DefaultClusteringOptions()
	opts.NodeID = "n0"
	opts.Addr = freeAddr()
	opts.HttpAddr = "127.0.0.1:18800"
	opts.MgmtAddr = "127.0.0.1:18700"
	opts.Bootstrap = true
	opts.RaftLogPath = raftDir
	opts.RaftHeartbeatTimeout = 50 * time.Millisecond
	opts.RaftElectionTimeout = 50 * time.Millisecond
	opts.RaftLeaseTimeout = 50 * time.Millisecond
	opts.RaftCommitTimeout = 5 * time.Millisecond
	if os.Getenv("VERIF_TRAILING0") == "1" {
		opts.TrailingLogs = 0
	}
	node, err := consensus.NewRaftNode(opts, killStore{rs}, snapCh, nil)
	if err != nil {
		reply(Resp{Err: "new node: " + err.Error()})
		os.Exit(3)
	}
	if err := node.WaitForLeader(90 * time.Second); err != nil {
		reply(Resp{Err: "no leader: " + err.Error()})
		os.Exit(3)
	}
	for i := 0; i < 200 && !node.IsLeader(); i++ {
		time.Sleep(10 * time.Millisecond)
	}
	api := apihttp.LogHandler(apihttp.NewApiHttp(node), log.L())
	mgmt := apihttp.LogHandler(mgmthttp.NewMgmtHttp(node), log.L())
	reply(Resp{Status: 1, Boundaries: atomic.LoadInt64(&boundaries)})
	in := bufio.NewReaderSize(os.Stdin, 1<<22)
	for {
		line, err := in.ReadBytes('\n')
		if err != nil {
			os.Exit(4) // parent went away
		}
		var q Req
		if err := json.Unmarshal(line, &q); err != nil {
			reply(Resp{Err: "bad request: " + err.Error()})
			continue
		}
		switch q.Op {
		case "http":
			var body io.Reader
			if !q.NoBody {
				body = bytes.NewReader(q.Body)
			}
			var res Resp
			func() {
				defer func() {
					if x := recover(); x != nil {
						res.Panic = fmt.Sprint(x) // what net/http's server would turn into a dropped connection
					}
				}()
				req := httptest.NewRequest(q.Method, q.Path, body)
				if q.NoBody {
					req.Body = nil
				}
				rr := httptest.NewRecorder()
				h := api
				if q.Mux == "mgmt" {
					h = http.HandlerFunc(mgmt)
				}
				h.ServeHTTP(rr, req)
				res.Status = rr.Code
				res.Body = rr.Body.Bytes()
			}()
			res.Boundaries = atomic.LoadInt64(&boundaries)
			reply(res)
		case "state":
			idx, ver := node.VerifState()
			t := ""
			for _, tb := range []storage.Table{storage.HyperTable, storage.HyperCacheTable, storage.HistoryTable} {
				t += hx.HashDump(hx.DumpTable(rs, tb)) + "/"
			}
			last, _ := strconv.ParseUint(node.VerifRaftStats()["last_log_index"], 10, 64)
			reply(Resp{Status: 1, Version: node.VerifBalloon().Version(), Tables: t, FsmIndex: idx, FsmVersion: ver, RaftLast: last, Boundaries: atomic.LoadInt64(&boundaries)})
		case "barrier":
			err := node.VerifBarrier(20 * time.Second)
			r := Resp{Status: 1, Boundaries: atomic.LoadInt64(&boundaries)}
			if err != nil {
				r.Err = err.Error()
			}
			reply(r)
		case "snapshot":
			err := node.VerifForceRaftSnapshot()
			r := Resp{Status: 1, Boundaries: atomic.LoadInt64(&boundaries)}
			if err != nil {
				r.Err = err.Error()
			}
			reply(r)
		case "close":
			err := node.Close(true)
			r := Resp{Status: 1, Boundaries: atomic.LoadInt64(&boundaries)}
			if err != nil {
				r.Err = err.Error()
			}
			reply(r)
			os.Exit(0)
		case "exit":
			os.Exit(0)
		}
	}
}

// ---------------------------------------------------------------- parent

type Child struct {
	cmd   *exec.Cmd
	in    io.WriteCloser
	out   *bufio.Reader
	Ready Resp
	errb  *bytes.Buffer
}

// Start launches a node child on the given directories. extraEnv e.g. "KILL_AT=7".
func Start(dbDir, raftDir string, extraEnv ...string) (*Child, error) {
	// the raft transport binds a port that was probed free a moment earlier; on a busy machine another
	// process can take it in between: that is the sandbox, not the server - try again
	for i := 0; ; i++ {
		c, err := start1(dbDir, raftDir, extraEnv...)
		if err != nil && i < 6 && strings.Contains(err.Error(), "address already in use") {
			continue
		}
		return c, err
	}
}

func start1(dbDir, raftDir string, extraEnv ...string) (*Child, error) {
	self := os.Getenv("VERIF_SELF")
	if self == "" {
		self, _ = os.Executable()
	}
	cmd := exec.Command(self, "-test.run", "^$")
	cmd.Env = append(os.Environ(), "VERIF_CHILD=node", "VERIF_DB="+dbDir, "VERIF_RAFT="+raftDir, "GOMAXPROCS=4")
	cmd.Env = append(cmd.Env, extraEnv...)
	in, _ := cmd.StdinPipe()
	outp, _ := cmd.StdoutPipe()
	errb := &bytes.Buffer{}
	cmd.Stderr = errb
	if err := cmd.Start(); err != nil {
		return nil, err
	}
	c := &Child{cmd: cmd, in: in, out: bufio.NewReaderSize(outp, 1<<22), errb: errb}
	r, err := c.read()
	if err != nil {
		c.Kill()
		return nil, fmt.Errorf("child did not come up: %v; stderr: %s", err, tail(errb.String()))
	}
	if r.Err != "" {
		c.Kill()
		return nil, fmt.Errorf("child failed to start: %s", r.Err)
	}
	c.Ready = r
	return c, nil
}

func tail(s string) string {
	if len(s) > 1500 {
		return s[len(s)-1500:]
	}
	return s
}

func (c *Child) read() (Resp, error) {
	type rr struct {
		r   Resp
		err error
	}
	ch := make(chan rr, 1)
	go func() {
		line, err := c.out.ReadBytes('\n')
		if err != nil {
			ch <- rr{err: err}
			return
		}
		var r Resp
		err = json.Unmarshal(line, &r)
		ch <- rr{r, err}
	}()
	select {
	case x := <-ch:
		return x.r, x.err
	case <-time.After(240 * time.Second):
		// requests are answered in milliseconds; four minutes without an answer is a wedged server even
		// on a badly overloaded machine
		return Resp{}, fmt.Errorf("no answer from the node within 240s (wedged)")
	}
}

// Do sends one request; err != nil means the node process died or wedged.
func (c *Child) Do(q Req) (Resp, error) {
	b, _ := json.Marshal(q)
	if _, err := c.in.Write(append(b, '\n')); err != nil {
		return Resp{}, err
	}
	return c.read()
}

func (c *Child) HTTP(mux, method, path string, body []byte) (Resp, error) {
	return c.Do(Req{Op: "http", Mux: mux, Method: method, Path: path, Body: body, NoBody: body == nil})
}

// Close asks for a clean shutdown and returns the exit status (-1 if killed by a signal) and stderr tail.
func (c *Child) Close() (Resp, int, string) {
	r, err := c.Do(Req{Op: "close"})
	code := c.Wait()
	if err != nil && r.Err == "" {
		r.Err = err.Error()
	}
	return r, code, tail(c.errb.String())
}

func (c *Child) Wait() int {
	done := make(chan error, 1)
	go func() { done <- c.cmd.Wait() }()
	select {
	case err := <-done:
		if err == nil {
			return 0
		}
		if ee, ok := err.(*exec.ExitError); ok {
			if ws, ok := ee.Sys().(syscall.WaitStatus); ok && ws.Signaled() {
				return -int(ws.Signal())
			}
			return ee.ExitCode()
		}
		return -999
	case <-time.After(30 * time.Second):
		c.cmd.Process.Kill()
		<-done
		return -998
	}
}

func (c *Child) Kill() {
	if c.cmd.Process != nil {
		c.cmd.Process.Kill()
	}
	c.cmd.Wait()
}

func (c *Child) Stderr() string { return tail(c.errb.String()) }
