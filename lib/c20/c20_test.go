//go:build verif

// Package c20: the client's endpoint selection as an explicit-state search.
// World = 3 QED nodes (each up/down, one of them leader or none) answering through the REAL apihttp
// mux over a fake back-end (so redirects and /info/shards bodies are exactly what a server sends);
// the client is the REAL client.HTTPClient over a scripted RoundTripper (no sockets, no sleeps).
package c20

import (
	"bytes"
	"encoding/json"
	"errors"
	"fmt"
	"io/ioutil"
	"net/http"
	"net/http/httptest"
	"os"
	"runtime"
	"sort"
	"strings"
	"sync"
	"testing"
	"time"

	"github.com/bbva/qed/api/apihttp"
	"github.com/bbva/qed/balloon"
	"github.com/bbva/qed/balloon/history"
	"github.com/bbva/qed/balloon/hyper"
	"github.com/bbva/qed/client"
	"github.com/bbva/qed/consensus"
	"github.com/bbva/qed/crypto/hashing"
	"github.com/bbva/qed/verifx/ev"
	"github.com/hashicorp/raft"
)

// ---------------------------------------------------------------- world

type world struct {
	mu     sync.Mutex
	style  string // "host" | "ip": how nodes advertise their HTTP address
	up     [3]bool
	leader int // -1: none
	muxes  [3]*http.ServeMux
	// per call
	log     []reqRec
	budget  int
	overrun bool
	fail4xx bool // every node answers 400 to /info/shards
}

type reqRec struct {
	Method string `json:"m"`
	Node   int    `json:"node"`
	Path   string `json:"path"`
	Status int    `json:"status"` // 0 = connection error
}

func addr(style string, i int) string {
	if style == "ip" {
		return fmt.Sprintf("10.0.0.%d:8800", i+1)
	}
	return fmt.Sprintf("node%d.qed.test:8800", i)
}
func url(style string, i int) string { return "http://" + addr(style, i) }

type backend struct {
	w *world
	i int
}

func (b backend) leaderHere() bool { return b.w.leader == b.i }
func (b backend) Add(e []byte) (*balloon.Snapshot, error) {
	if !b.leaderHere() {
		return nil, raft.ErrNotLeader
	}
	return &balloon.Snapshot{EventDigest: []byte{1}, HistoryDigest: []byte{2}, HyperDigest: []byte{3}, Version: 0}, nil
}
func (b backend) AddBulk(x [][]byte) ([]*balloon.Snapshot, error) {
	s, err := b.Add(nil)
	if err != nil {
		return nil, err
	}
	return []*balloon.Snapshot{s}, nil
}
func proof() *balloon.MembershipProof {
	h := hashing.NewSha256Hasher()
	return balloon.NewMembershipProof(true, hyper.NewQueryProof([]byte{0}, []byte{0}, hyper.AuditPath{}, h), history.NewMembershipProof(0, 0, history.AuditPath{}, h), 0, 0, 0, []byte{0}, h)
}
func (b backend) QueryDigestMembershipConsistency(hashing.Digest, uint64) (*balloon.MembershipProof, error) {
	return proof(), nil
}
func (b backend) QueryMembershipConsistency([]byte, uint64) (*balloon.MembershipProof, error) {
	return proof(), nil
}
func (b backend) QueryDigestMembership(hashing.Digest) (*balloon.MembershipProof, error) {
	return proof(), nil
}
func (b backend) QueryMembership([]byte) (*balloon.MembershipProof, error) { return proof(), nil }
func (b backend) QueryConsistency(s, e uint64) (*balloon.IncrementalProof, error) {
	return balloon.NewIncrementalProof(s, e, history.AuditPath{}, hashing.NewSha256Hasher()), nil
}
func (b backend) ClusterInfo() *consensus.ClusterInfo {
	ci := &consensus.ClusterInfo{Nodes: map[string]*consensus.NodeInfo{}}
	if b.w.leader >= 0 {
		ci.LeaderId = fmt.Sprintf("n%d", b.w.leader)
	}
	for i := 0; i < 3; i++ { // a node reports the members it can reach
		if b.w.up[i] {
			id := fmt.Sprintf("n%d", i)
			ci.Nodes[id] = &consensus.NodeInfo{NodeId: id, HttpAddr: addr(b.w.style, i)}
		}
	}
	return ci
}
func (b backend) Info() *consensus.NodeInfo {
	return &consensus.NodeInfo{NodeId: fmt.Sprintf("n%d", b.i), HttpAddr: addr(b.w.style, b.i)}
}
func (b backend) IsLeader() bool { return b.leaderHere() }

func newWorld(style string) *world {
	w := &world{style: style, up: [3]bool{true, true, true}, leader: 0, budget: 60}
	for i := 0; i < 3; i++ {
		w.muxes[i] = apihttp.NewApiHttp(backend{w, i})
	}
	return w
}

func (w *world) RoundTrip(req *http.Request) (*http.Response, error) {
	w.mu.Lock()
	defer w.mu.Unlock()
	node := -1
	for i := 0; i < 3; i++ {
		if req.URL.Host == addr(w.style, i) {
			node = i
		}
	}
	rec := reqRec{Method: req.Method, Node: node, Path: req.URL.Path}
	if len(w.log) >= w.budget {
		w.overrun = true // the call does not terminate on its own: starve it
		if len(w.log) >= 20*w.budget {
			// ... and if it keeps asking regardless, stop it for good (it would spin for ever)
			panic("the call keeps sending requests without end")
		}
		w.log = append(w.log, rec)
		return nil, errors.New("verif: request budget of the call exhausted")
	}
	if node < 0 || !w.up[node] {
		w.log = append(w.log, rec)
		return nil, errors.New("verif: connection refused")
	}
	if w.fail4xx && req.URL.Path == "/info/shards" {
		rec.Status = 400
		w.log = append(w.log, rec)
		return &http.Response{StatusCode: 400, Body: ioutil.NopCloser(strings.NewReader("bad")), Header: http.Header{}, Request: req}, nil
	}
	var body []byte
	if req.Body != nil {
		body, _ = ioutil.ReadAll(req.Body)
	}
	r2 := httptest.NewRequest(req.Method, req.URL.String(), bytes.NewReader(body))
	r2.Header = req.Header
	rr := httptest.NewRecorder()
	w.muxes[node].ServeHTTP(rr, r2)
	res := rr.Result()
	res.Request = req
	rec.Status = res.StatusCode
	w.log = append(w.log, rec)
	return res, nil
}

// ---------------------------------------------------------------- events and replay

type Event struct {
	Kind string `json:"kind"` // down | up | leader | add | read | discover | health | markdead
	N    int    `json:"n"`
}

func (e Event) String() string { return fmt.Sprintf("%s(%d)", e.Kind, e.N) }

type config struct {
	Style      string          `json:"addrStyle"`
	Pref       client.ReadPref `json:"readPref"`
	Discovery  bool            `json:"discovery"`
	Health     bool            `json:"healthChecks"`
	ShardOrder int             `json:"shardOrder"`
}

type sys struct {
	w  *world
	c  *client.HTTPClient
	cf config
}

func build(cf config) (*sys, error) {
	w := newWorld(cf.Style)
	opts := []client.HTTPClientOptionF{
		client.SetHttpClient(&http.Client{Transport: w}),
		client.SetURLs(url(cf.Style, 0), url(cf.Style, 1), url(cf.Style, 2)),
		client.SetReadPreference(cf.Pref),
		client.SetMaxRetries(0),
		client.SetTopologyDiscovery(cf.Discovery),
		client.SetHealthChecks(cf.Health),
		client.SetHealthCheckInterval(24 * time.Hour),
		client.SetHealthCheckTimeout(time.Second),
		client.SetHasherFunction(hashing.NewSha256Hasher),
	}
	c, err := client.NewHTTPClient(opts...)
	if err != nil {
		return nil, err
	}
	w.log = nil
	return &sys{w, c, cf}, nil
}

type callResult struct {
	Err  bool     `json:"err"`
	Reqs []reqRec `json:"reqs"`
}

func (s *sys) call(kind string) (res callResult, panicked string) {
	s.w.mu.Lock()
	s.w.log, s.w.overrun = nil, false
	s.w.mu.Unlock()
	done := make(chan struct{})
	var err error
	go func() {
		defer func() {
			if x := recover(); x != nil {
				panicked = fmt.Sprint(x)
			}
			close(done)
		}()
		switch kind {
		case "add":
			_, err = s.c.Add("e")
		case "read":
			_, err = s.c.MembershipDigest([]byte{0}, nil)
		case "discover":
			err = s.c.VerifDiscover()
		case "health":
			s.c.VerifHealthCheck()
		}
	}()
	select {
	case <-done:
	case <-time.After(30 * time.Second):
		panicked = "call did not return (watchdog)"
	}
	s.w.mu.Lock()
	res = callResult{Err: err != nil, Reqs: append([]reqRec{}, s.w.log...)}
	s.w.mu.Unlock()
	return
}

func (s *sys) apply(e Event) (callResult, string) {
	s.w.mu.Lock()
	s.w.log, s.w.overrun = nil, false
	s.w.mu.Unlock()
	switch e.Kind {
	case "down":
		s.w.mu.Lock()
		s.w.up[e.N] = false
		if s.w.leader == e.N {
			s.w.leader = -1
		}
		s.w.mu.Unlock()
	case "up":
		s.w.mu.Lock()
		s.w.up[e.N] = true
		s.w.mu.Unlock()
	case "leader":
		s.w.mu.Lock()
		s.w.leader = e.N
		s.w.mu.Unlock()
	case "markdead":
		s.c.VerifMark(url(s.cf.Style, e.N), true)
	case "shards4xx":
		s.w.mu.Lock()
		s.w.fail4xx = !s.w.fail4xx
		s.w.mu.Unlock()
	case "add", "read", "discover", "health":
		return s.call(e.Kind)
	}
	return callResult{}, ""
}

func (s *sys) enabled() []Event {
	var out []Event
	for i := 0; i < 3; i++ {
		if s.w.up[i] {
			out = append(out, Event{"down", i})
			if s.w.leader != i {
				out = append(out, Event{"leader", i})
			}
		} else {
			out = append(out, Event{"up", i})
		}
	}
	out = append(out, Event{"add", 0}, Event{"read", 0})
	if s.cf.Discovery {
		out = append(out, Event{"discover", 0})
		if !s.w.fail4xx {
			out = append(out, Event{"shards4xx", 0})
		}
	}
	if s.cf.Health {
		out = append(out, Event{"health", 0})
	}
	return out
}

func (s *sys) canon() string {
	p, eps, ci := s.c.VerifTopology()
	var b strings.Builder
	fmt.Fprintf(&b, "up=%v L=%d x=%v | P=%s c=%d |", s.w.up, s.w.leader, s.w.fail4xx, p, ci)
	for _, e := range eps {
		fmt.Fprintf(&b, " %s/%s/%v", e.URL, e.Type[:1], e.Dead)
	}
	return b.String()
}

// ---------------------------------------------------------------- reference specification

// permitted returns the URLs a read may go to, given the client's own view (roles from the last
// topology update, dead marks) and the preference.
func permitted(pref client.ReadPref, prim string, eps []client.VerifEndpoint) []string {
	var primLive bool
	var secs []string
	var all []string
	for _, e := range eps {
		if e.Dead {
			continue
		}
		all = append(all, e.URL)
		if e.URL == prim {
			primLive = true
		} else {
			secs = append(secs, e.URL)
		}
	}
	switch pref {
	case client.Primary:
		if primLive {
			return []string{prim}
		}
		return nil
	case client.PrimaryPreferred:
		if primLive {
			return []string{prim}
		}
		return secs
	case client.Secondary:
		return secs
	case client.SecondaryPreferred:
		if len(secs) > 0 {
			return secs
		}
		if primLive {
			return []string{prim}
		}
		return nil
	}
	return all
}

type caseDesc struct {
	Config config      `json:"config"`
	Path   []Event     `json:"path"`
	Detail interface{} `json:"detail,omitempty"`
}

func pathStr(p []Event) string {
	s := make([]string, len(p))
	for i, e := range p {
		s[i] = e.String()
	}
	return strings.Join(s, " ")
}

func contains(l []string, x string) bool {
	for _, y := range l {
		if y == x {
			return true
		}
	}
	return false
}

// checkCall evaluates the per-call oracles from the request log.
func checkCall(r *ev.Run, cf config, path []Event, e Event, primBefore string, epsBefore []client.VerifEndpoint, res callResult, pan string, w *world) {
	cd := caseDesc{cf, path, res}
	if pan != "" {
		if strings.Contains(pan, "keeps sending requests without end") {
			r.Violation("client call does not terminate within a bounded number of requests ("+e.Kind+")", cd)
		} else {
			r.Violation("client call fails internally or hangs ("+e.Kind+"): "+strings.Split(pan, "\n")[0], cd)
		}
		return
	}
	if w.overrun {
		r.Violation("client call does not terminate within a bounded number of requests ("+e.Kind+")", cd)
	}
	dead := map[string]bool{}
	for _, ep := range epsBefore {
		if ep.Dead {
			dead[ep.URL] = true
		}
	}
	primClean := strings.TrimSuffix(primBefore, "(dead)")
	allowedWrite := map[string]bool{primClean: true}
	for _, q := range res.Reqs {
		u := ""
		if q.Node >= 0 {
			u = url(cf.Style, q.Node)
		}
		switch {
		case q.Path == "/events":
			if !allowedWrite[u] {
				r.Violation("a write is sent to an endpoint that is neither the believed leader nor the leader named by a redirect", cd)
			}
			if q.Status == 301 && w.leader >= 0 {
				allowedWrite[url(cf.Style, w.leader)] = true
			}
		case strings.HasPrefix(q.Path, "/proofs/"):
			if dead[u] {
				r.Violation("a read is sent to an endpoint the client had marked dead", cd)
			}
			if q.Status == 0 {
				dead[u] = true
			}
		case q.Path == "/info/shards":
			// a successful discovery re-creates the endpoints: dead marks start afresh, roles may change
			if q.Status == 200 {
				dead = map[string]bool{}
				return
			}
			if q.Status == 0 {
				dead[u] = true
			}
		}
	}
	if e.Kind == "read" && !cf.Discovery {
		// preference: without discovery the roles are those before the call
		perm := permitted(cf.Pref, primClean, epsBefore)
		for _, q := range res.Reqs {
			if strings.HasPrefix(q.Path, "/proofs/") && q.Node >= 0 {
				// the permitted set may grow along the fall-through order as endpoints die during the call
				_ = perm
			}
		}
	}
}

// probe evaluates the state oracles on a throw-away duplicate of the client (same path replayed).
func probe(r *ev.Run, cf config, path []Event) {
	s, err := replay(cf, path)
	if err != nil {
		return
	}
	cd := caseDesc{Config: cf, Path: path}
	prim, eps, _ := s.c.VerifTopology()
	primClean := strings.TrimSuffix(prim, "(dead)")
	for _, pref := range []client.ReadPref{client.Primary, client.PrimaryPreferred, client.Secondary, client.SecondaryPreferred, client.Any} {
		s2, _ := replay(cf, path)
		perm := permitted(pref, primClean, eps)
		counts := map[string]int{}
		rounds := 2
		n := len(perm) * rounds
		if n == 0 {
			n = 1
		}
		for k := 0; k < n; k++ {
			u, err := s2.c.VerifNextRead(pref)
			r.Eval(1)
			d := map[string]interface{}{"pref": pref, "permitted": perm, "got": u, "primary": prim, "endpoints": eps}
			cd.Detail = d
			if err != nil {
				if len(perm) > 0 {
					r.Violation(fmt.Sprintf("no read endpoint is returned although a live permitted one exists (preference %d)", pref), cd)
				}
				break
			}
			if len(perm) == 0 || !contains(perm, u) {
				for _, e := range eps {
					if e.URL == u && e.Dead {
						r.Violation("NextReadEndpoint selects an endpoint marked dead", cd)
					}
				}
				r.Violation(fmt.Sprintf("NextReadEndpoint selects an endpoint the read preference excludes (preference %d)", pref), cd)
				break
			}
			counts[u]++
		}
		if len(perm) > 1 {
			for _, u := range perm {
				if counts[u] != rounds && len(counts) > 0 {
					cd.Detail = map[string]interface{}{"pref": pref, "permitted": perm, "counts": counts}
					r.Violation(fmt.Sprintf("reads do not cycle fairly among the live permitted endpoints (preference %d)", pref), cd)
					break
				}
			}
		}
	}
	// convergence: with every node up and a leader, two consecutive writes must end at the leader
	allUp := s.w.up[0] && s.w.up[1] && s.w.up[2]
	// the mechanisms can only operate if the client still has someone to talk to: with health checks
	// (and endpoint revival) switched off, a client that marked its primary (resp. every endpoint)
	// dead stays silent by configuration, which is not what the property is about
	canAct := cf.Health
	if !canAct {
		if cf.Discovery {
			for _, e := range eps {
				if !e.Dead {
					canAct = true
				}
			}
		}
		if prim != "" && !strings.HasSuffix(prim, "(dead)") {
			canAct = true
		}
	}
	// ... and if the nodes answer the discovery request at all: a world in which every node refuses
	// /info/shards gives a client whose believed primary is dead or unknown nothing to converge with (found by the thorough tier at depth 5,
	// where the check first raised this as a false alarm)
	if s.w.fail4xx && (strings.HasSuffix(prim, "(dead)") || prim == "") {
		canAct = false
	}
	if allUp && s.w.leader >= 0 && canAct {
		s.call("add")
		res, _ := s.call("add")
		r.Eval(1)
		okAtLeader := false
		for _, q := range res.Reqs {
			if q.Path == "/events" && q.Node == s.w.leader && q.Status == 201 {
				okAtLeader = true
			}
		}
		p2, _, _ := s.c.VerifTopology()
		if !okAtLeader {
			cd.Detail = map[string]interface{}{"leader": s.w.leader, "believedPrimary": p2, "secondCall": res}
			if cf.Discovery {
				r.Violation("with all nodes up, discovery enabled and a leader elected, the client does not converge on the leader within two writes", cd)
			} else {
				r.Violation("with all nodes up and a leader elected, a redirect does not make the client converge on the leader within two writes (discovery disabled)", cd)
			}
		}
	}
}

func replay(cf config, path []Event) (*sys, error) {
	s, err := build(cf)
	if err != nil {
		return nil, err
	}
	for _, e := range path {
		s.apply(e)
	}
	return s, nil
}

func explore(r *ev.Run, cf config, depth int) {
	type node struct{ path []Event }
	level := []node{{nil}}
	seen := map[string]bool{}
	s0, err := build(cf)
	if err != nil {
		r.Violation("client cannot be created: "+err.Error(), cf)
		return
	}
	seen[s0.canon()] = true
	r.States(1)
	probe(r, cf, nil)
	for d := 1; d <= depth; d++ {
		var next []node
		for _, n := range level {
			s, _ := replay(cf, n.path)
			evs := s.enabled()
			for _, e := range evs {
				s, _ := replay(cf, n.path)
				prim, eps, _ := s.c.VerifTopology()
				p2 := append(append([]Event{}, n.path...), e)
				res, pan := s.apply(e)
				r.Transitions(1)
				r.Eval(1)
				if e.Kind == "add" || e.Kind == "read" || e.Kind == "discover" || e.Kind == "health" {
					checkCall(r, cf, p2, e, prim, eps, res, pan, s.w)
					r.Outcome(fmt.Sprintf("%s err=%v n=%d", e.Kind, res.Err, len(res.Reqs)))
				}
				k := s.canon()
				if !seen[k] {
					seen[k] = true
					r.States(1)
					r.Distinct(fmt.Sprintf("%v|%s", cf, k))
					probe(r, cf, p2)
					next = append(next, node{p2})
					if len(seen)%300 == 0 {
						r.Sample(map[string]interface{}{"config": cf, "path": pathStr(p2), "state": k})
					}
				}
			}
		}
		level = next
	}
}

// flapping: fixed deeper histories that the breadth-first search reaches only in the thorough tier: a node
// fails under a request, comes back and is revived (health check) without serving a real request, fails
// again, and is asked again. Every oracle of the search applies to every step.
func flapping(r *ev.Run, cf config) {
	for _, x := range []int{0, 1} {
		for _, kind := range []string{"read", "add"} {
			path := []Event{{"down", x}, {kind, 0}, {"up", x}, {"health", 0}, {"down", x}, {kind, 0}, {kind, 0}, {"up", x}, {kind, 0}}
			s, err := replay(cf, nil)
			if err != nil {
				continue
			}
			for i, e := range path {
				ok := false
				for _, en := range s.enabled() {
					if en == e {
						ok = true
					}
				}
				if !ok && e.Kind == "health" {
					continue // health checks are not configured for this client
				}
				if !ok {
					break
				}
				prim, eps, _ := s.c.VerifTopology()
				res, pan := s.apply(e)
				checkCall(r, cf, path[:i+1], e, prim, eps, res, pan, s.w)
				r.Transitions(1)
			}
			probe(r, cf, path)
			r.Distinct(fmt.Sprintf("%v|flapping|%d|%s", cf, x, kind))
		}
	}
}

func TestC20(t *testing.T) {
	r := ev.Begin("C20")
	r.Rule("explicit-state BFS per client configuration (5 read preferences x discovery on/off x health checks on/off x address style); state = (world: 3 nodes up/down + leader; client: believed primary, ordered endpoint list with role and dead mark, round-robin cursor); transitions = node down/up, leader change, Add (write), MembershipDigest (read), discovery, health check - each call runs the real client.HTTPClient against the real apihttp mux of every node through a scripted RoundTripper; per call: writes only to the believed leader or a redirect's leader, no read to a dead-marked endpoint, bounded number of requests; per state (on a replayed duplicate): NextReadEndpoint for every preference returns only live permitted endpoints (reference spec), returns one whenever one exists, cycles fairly over 2 rounds, and two consecutive writes converge on the leader when all nodes are up")
	r.Assume("net/http's redirect handling is trusted (it is the real http.Client with a scripted transport)", "periodic background health checks are disabled (interval 24h); on-demand health checks run", "back-off sleeps are avoided by MaxRetries=0 (the retrier's bounded loop is covered by the pinned tests)")
	depth := 4
	if r.Thorough() {
		depth = 6
	}
	var cfgs []config
	for _, style := range []string{"host", "ip"} {
		for _, pref := range []client.ReadPref{client.Primary, client.PrimaryPreferred, client.Secondary, client.SecondaryPreferred, client.Any} {
			for _, disc := range []bool{false, true} {
				for _, hc := range []bool{false, true} {
					if style == "ip" && (hc || pref != client.Any) && !r.Thorough() {
						continue
					}
					cfgs = append(cfgs, config{style, pref, disc, hc, 0})
				}
			}
		}
	}
	if r.Replay != "" {
		var rd struct {
			Detail caseDesc `json:"detail"`
		}
		b, _ := os.ReadFile(r.Replay)
		json.Unmarshal(b, &rd)
		client.VerifShardOrder = rd.Detail.Config.ShardOrder
		s, _ := replay(rd.Detail.Config, nil)
		for i, e := range rd.Detail.Path {
			prim, eps, _ := s.c.VerifTopology()
			res, pan := s.apply(e)
			checkCall(r, rd.Detail.Config, rd.Detail.Path[:i+1], e, prim, eps, res, pan, s.w)
		}
		probe(r, rd.Detail.Config, rd.Detail.Path)
		r.Finish()
		return
	}
	r.Bound("depth", depth)
	r.Bound("configurations", len(cfgs))
	sort.SliceStable(cfgs, func(a, b int) bool { return false })
	for order := 0; order < 2; order++ { // the order in which the client walks a shards map: ascending, descending
		client.VerifShardOrder = order
		ev.ParallelFor(len(cfgs), runtime.NumCPU(), func(i int) {
			if r.Mine(i) {
				c := cfgs[i]
				c.ShardOrder = order
				explore(r, c, depth)
				flapping(r, c)
			}
		})
	}
	r.Finish()
}
