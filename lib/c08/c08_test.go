//go:build verif

// Package c08: stopping and restarting is invisible and never crashes.
// (1) balloon level, both back-ends: every sequence x every stop point: close + reopen must not change
//
//	any later snapshot or proof; (2) resource accounting: repeated open/close cycles must not grow
//	the process's file-descriptor table; (3) node level: a real single-node server in a child
//	process is stopped cleanly after p requests (exit status must be 0), restarted on the same
//	data, and must answer everything exactly like a server that was never stopped.
package c08

import (
	"bytes"
	"encoding/json"
	"fmt"
	"os"
	"path/filepath"
	"runtime"
	"sync/atomic"
	"testing"

	"github.com/bbva/qed/balloon"
	"github.com/bbva/qed/protocol"
	"github.com/bbva/qed/storage/rocks"
	"github.com/bbva/qed/verifx/ev"
	"github.com/bbva/qed/verifx/hx"
	"github.com/bbva/qed/verifx/nx"
)

func TestMain(m *testing.M) {
	if nx.ChildMain() {
		return
	}
	os.Exit(m.Run())
}

type bcase struct {
	LongN   int        `json:"longLog,omitempty"` // n sequential digests instead of named ones
	Names   []string   `json:"names"`
	Comp    []int      `json:"comp"`
	Backend hx.Backend `json:"backend"`
	StopAt  int        `json:"stopAfterGroups"` // -1 = never
	Stops   int        `json:"stops"`           // how many times in a row
}

var seq int64

// observations of a run: every snapshot and the JSON of every proof at the end
func observe(c bcase) (obs []string, failure string) {
	dir := ""
	if c.Backend == hx.Rocks {
		dir = filepath.Join(os.Getenv("VERIF_SCRATCH_DIR"), fmt.Sprintf("b%d", atomic.AddInt64(&seq, 1)))
		os.MkdirAll(dir, 0755)
	}
	d, err := hx.NewDriver(c.Backend, dir, 300)
	if err != nil {
		return nil, "open: " + err.Error()
	}
	defer d.Close()
	restart := func() string {
		for k := 0; k < c.Stops; k++ {
			pn, msg := ev.Catch(func() {
				if err := d.Reopen(); err != nil {
					panic("error: " + err.Error())
				}
			})
			if pn {
				return "close+reopen fails (" + string(c.Backend) + "): " + first(msg)
			}
		}
		return ""
	}
	if c.StopAt == 0 {
		if f := restart(); f != "" {
			return nil, f
		}
	}
	var ds [][]byte
	for _, nd := range hx.ByName(c.Names...) {
		ds = append(ds, nd.D)
	}
	if c.LongN > 0 {
		ds = nil
		for i := 0; i < c.LongN; i++ {
			ds = append(ds, hx.SeqDigest(i))
		}
	}
	pos := 0
	for g, size := range c.Comp {
		var snaps []*balloon.Snapshot
		pn, msg := ev.Catch(func() {
			var err error
			snaps, err = d.Apply(ds[pos:pos+size], false)
			if err != nil {
				panic("error: " + err.Error())
			}
		})
		if pn {
			return obs, "insertion fails: " + first(msg)
		}
		pos += size
		for _, s := range snaps {
			b, _ := json.Marshal(protocol.Snapshot(*s))
			obs = append(obs, "snapshot "+string(b))
		}
		if c.StopAt == g+1 {
			if f := restart(); f != "" {
				return obs, f
			}
		}
	}
	n := uint64(pos)
	step := uint64(1)
	if n > 64 {
		step = n / 16 // a long log: a sample of (event, version) pairs, the snapshots are all compared
	}
	for e := uint64(0); e < n; e += step {
		for q := e; q < n; q += step {
			var line string
			pn, msg := ev.Catch(func() {
				p, err := d.B.QueryDigestMembershipConsistency(ds[e], q)
				if err != nil {
					panic("error: " + err.Error())
				}
				b, _ := json.Marshal(protocol.ToMembershipResult(nil, p))
				line = fmt.Sprintf("membership(%d,%d) %s", e, q, b)
			})
			if pn {
				return obs, "membership query fails: " + first(msg)
			}
			obs = append(obs, line)
		}
	}
	for j := uint64(0); j < n; j += step {
		for i := uint64(0); i <= j; i += step {
			var line string
			pn, msg := ev.Catch(func() {
				p, err := d.B.QueryConsistency(i, j)
				if err != nil {
					panic("error: " + err.Error())
				}
				b, _ := json.Marshal(protocol.ToIncrementalResponse(p))
				line = fmt.Sprintf("incremental(%d,%d) %s", i, j, b)
			})
			if pn {
				return obs, "consistency query fails: " + first(msg)
			}
			obs = append(obs, line)
		}
	}
	// the version the reopened balloon reports and the digest of one more insertion
	obs = append(obs, fmt.Sprintf("version %d", d.B.Version()))
	return obs, ""
}

func first(s string) string {
	for i, c := range s {
		if c == '\n' {
			return s[:i]
		}
	}
	if len(s) > 120 {
		return s[:120]
	}
	return s
}

func balloonLevel(r *ev.Run) {
	subs := [][]string{{"X", "Y255", "Y24", "Z"}, {"X", "Y23", "Sa", "Y128"}}
	maxLen := 3
	if r.Thorough() {
		subs = append(subs, []string{"X", "Y27", "Y28", "Y31", "Y254"})
		maxLen = 4
	}
	var cases []bcase
	for si, sub := range subs {
		for _, arr := range hx.Arrangements(len(sub), 1, maxLen) {
			names := make([]string, len(arr))
			for i, a := range arr {
				names[i] = sub[a]
			}
			for _, comp := range hx.Compositions(len(names)) {
				for _, be := range []hx.Backend{hx.BPlus, hx.Rocks} {
					if be == hx.Rocks && (si > 0 || len(names) > 3) {
						continue
					}
					for stop := 0; stop <= len(comp); stop++ {
						cases = append(cases, bcase{0, names, comp, be, stop, 1})
					}
					cases = append(cases, bcase{0, names, comp, be, len(comp), 3})
				}
			}
		}
	}
	// more than one page (1000) of hyper-cache recovery tiles on the durable back-end, stopped before the
	// last group: the rebuilt in-memory levels must give the same digests as the never-stopped run
	long := 1201
	if r.Thorough() {
		long = 2301
	}
	cases = append(cases, bcase{LongN: long, Comp: []int{long - 101, 100, 1}, Backend: hx.Rocks, StopAt: 1, Stops: 1},
		bcase{LongN: long, Comp: []int{long - 101, 100, 1}, Backend: hx.Rocks, StopAt: 2, Stops: 1})
	r.Bound("balloon_cases", len(cases))
	ref := map[string][]string{}
	var refMu = make(chan struct{}, 1)
	refMu <- struct{}{}
	ev.ParallelFor(len(cases), runtime.NumCPU(), func(i int) {
		if !r.Mine(i) {
			return
		}
		c := cases[i]
		key := fmt.Sprint(c.LongN, c.Names, c.Comp, c.Backend)
		<-refMu
		want, ok := ref[key]
		refMu <- struct{}{}
		if !ok {
			w, f := observe(bcase{c.LongN, c.Names, c.Comp, c.Backend, -1, 0})
			if f != "" {
				r.Violation("uninterrupted run fails: "+f, c)
				return
			}
			want = w
			<-refMu
			ref[key] = w
			refMu <- struct{}{}
		}
		got, f := observe(c)
		r.Eval(len(got) + 1)
		if f != "" {
			r.Violation(f, c)
			return
		}
		if len(got) != len(want) {
			r.Violation("a balloon that was closed and reopened answers a different number of queries", c)
			return
		}
		for k := range want {
			if got[k] != want[k] {
				kind := want[k][:bytes.IndexByte([]byte(want[k]), ' ')]
				if kind != "snapshot" && kind != "version" {
					kind = kind[:bytes.IndexByte([]byte(kind), '(')]
				}
				r.Violation(fmt.Sprintf("after close+reopen (%s) a %s differs from that of a balloon that was never stopped", c.Backend, kind), c)
				return
			}
		}
		r.Distinct(fmt.Sprint(c))
		if i%301 == 0 {
			r.Sample(c)
		}
	})
}

func nfd() int {
	d, err := os.ReadDir("/proc/self/fd")
	if err != nil {
		return -1
	}
	return len(d)
}

// resources: open/use/close cycles of the durable store must not leak descriptors.
func resources(r *ev.Run) {
	dir := filepath.Join(os.Getenv("VERIF_SCRATCH_DIR"), "fdleak")
	os.MkdirAll(dir, 0755)
	cycle := func() {
		s, err := rocks.NewRocksDBStore(dir, 0)
		if err != nil {
			panic(err)
		}
		d, _ := hx.NewDriver(hx.BPlus, "", 300) // warm the balloon code paths
		d.Close()
		s.Close()
	}
	cycle()
	before := nfd()
	for i := 0; i < 5; i++ {
		cycle()
	}
	after := nfd()
	r.Eval(1)
	r.Distinct("fd accounting")
	if before >= 0 && after > before {
		r.Violation("closing the RocksDB store does not release every file descriptor it acquired", map[string]int{"before": before, "afterFiveMoreCycles": after})
	}
}

type ncase struct {
	Events   int  `json:"eventsBeforeStop"`
	Stops    int  `json:"stops"`
	Snapshot int  `json:"raftSnapshotAfterEvents,omitempty"` // 0 = none
	Compact  bool `json:"compactLog,omitempty"`
}

func addBody(i int) []byte {
	b, _ := json.Marshal(protocol.Event{Event: []byte(fmt.Sprintf("event-%d", i))})
	return b
}

// nodeLevel: real single-node servers in child processes.
func nodeLevel(r *ev.Run) {
	total := 6
	// golden: never stopped
	base := os.Getenv("VERIF_SCRATCH_DIR")
	gdb, graft := filepath.Join(base, "golden-db"), filepath.Join(base, "golden-raft")
	g, err := nx.Start(gdb, graft)
	if err != nil {
		r.Violation("a fresh server does not start: "+first(err.Error()), nil)
		return
	}
	var golden []string
	for i := 0; i < total; i++ {
		res, err := g.HTTP("api", "POST", "/events", addBody(i))
		if err != nil || res.Status != 201 {
			r.Violation("the never-stopped server fails on a plain add", map[string]interface{}{"i": i, "status": res.Status})
			g.Kill()
			return
		}
		golden = append(golden, string(res.Body))
	}
	probe := func(c *nx.Child, n int) []string {
		var out []string
		for i := 0; i < n; i++ {
			q, _ := json.Marshal(protocol.MembershipQuery{Key: []byte(fmt.Sprintf("event-%d", i))})
			res, err := c.HTTP("api", "POST", "/proofs/membership", q)
			if err != nil {
				out = append(out, "died")
				return out
			}
			out = append(out, fmt.Sprintf("m%d %d %s", i, res.Status, res.Body))
		}
		q, _ := json.Marshal(protocol.IncrementalRequest{Start: 0, End: uint64(n - 1)})
		res, _ := c.HTTP("api", "POST", "/proofs/incremental", q)
		out = append(out, fmt.Sprintf("inc %d %s", res.Status, res.Body))
		return out
	}
	goldenProbe := probe(g, total)
	_, code, stderr := g.Close()
	r.Eval(1)
	if code != 0 {
		r.Violation("clean shutdown of a server aborts the process or exits non-zero", map[string]interface{}{"exit": code, "stderr": first(stderr), "eventsBeforeStop": total})
	}
	var cases []ncase
	for p := 0; p <= total; p++ {
		cases = append(cases, ncase{Events: p, Stops: 1})
	}
	cases = append(cases, ncase{Events: 2, Stops: 3}, ncase{Events: 0, Stops: 2})
	// a raft snapshot (with and without complete log compaction) somewhere before the stop: at start-up
	// raft hands the node its last snapshot and replays what follows
	for _, sn := range []int{1, 3} {
		for p := sn; p <= total; p++ {
			if !r.Thorough() && p != sn && p != sn+1 && p != total {
				continue
			}
			cases = append(cases, ncase{Events: p, Stops: 1, Snapshot: sn}, ncase{Events: p, Stops: 1, Snapshot: sn, Compact: true})
		}
	}
	ev.ParallelFor(len(cases), 6, func(ci int) {
		if !r.Mine(ci) {
			return
		}
		c := cases[ci]
		db, rf := filepath.Join(base, fmt.Sprintf("n%d-db", ci)), filepath.Join(base, fmt.Sprintf("n%d-raft", ci))
		var env []string
		if c.Compact {
			env = []string{"VERIF_TRAILING0=1"}
		}
		n, err := nx.Start(db, rf, env...)
		if err != nil {
			r.Violation("a fresh server does not start: "+first(err.Error()), c)
			return
		}
		done := 0
		stop := func() bool {
			for k := 0; k < c.Stops; k++ {
				_, code, stderr := n.Close()
				r.Eval(1)
				if code != 0 {
					r.Violation("clean shutdown of a server aborts the process or exits non-zero", map[string]interface{}{"exit": code, "stderr": first(stderr), "eventsBeforeStop": c.Events})
					return false
				}
				n, err = nx.Start(db, rf, env...)
				if err != nil {
					r.Violation("a cleanly stopped server does not start again on its data: "+first(err.Error()), c)
					return false
				}
			}
			return true
		}
		for i := 0; i < total; i++ {
			if c.Snapshot > 0 && i == c.Snapshot {
				if res, err := n.Do(nx.Req{Op: "snapshot"}); err != nil || res.Err != "" {
					r.Violation("harness: forced raft snapshot failed: "+res.Err, c)
					n.Kill()
					return
				}
			}
			if i == c.Events {
				if !stop() {
					return
				}
			}
			res, err := n.HTTP("api", "POST", "/events", addBody(i))
			r.Eval(1)
			if err != nil || res.Status != 201 {
				r.Violation("a restarted server fails on a plain add", map[string]interface{}{"case": c, "i": i, "status": res.Status, "panic": res.Panic})
				n.Kill()
				return
			}
			if string(res.Body) != golden[i] {
				r.Violation("a snapshot issued after a clean restart differs from that of a server that was never stopped", map[string]interface{}{"case": c, "i": i})
			}
			done++
		}
		if c.Events == total {
			if !stop() {
				return
			}
		}
		pr := probe(n, total)
		for k := range goldenProbe {
			r.Eval(1)
			if k >= len(pr) || pr[k] != goldenProbe[k] {
				r.Violation("a proof served after a clean restart differs from that of a server that was never stopped", map[string]interface{}{"case": c, "probe": k})
				break
			}
		}
		_, code, stderr := n.Close()
		if code != 0 {
			r.Violation("clean shutdown of a server aborts the process or exits non-zero", map[string]interface{}{"exit": code, "stderr": first(stderr), "eventsBeforeStop": total})
		}
		r.Distinct(fmt.Sprintf("node %v", c))
	})
}

func TestC08(t *testing.T) {
	r := ev.Begin("C08")
	r.Rule("(1) balloon level: every ordered sequence (length<=3 quick / 4 thorough) over crafted digest sub-alphabets x every composition x both back-ends x EVERY stop point (after 0..n groups; also three stops in a row): close + reopen, then every later snapshot, every membership proof (e,q), every incremental proof (i,j) and the version must be byte-identical to a run that never stopped; (2) five open/close cycles of the RocksDB store must not grow the descriptor table; (3) node level: a real single-node server (real raft, both RocksDB databases, real API mux) in a child process is closed after p=0..6 requests - exit status must be 0 - restarted, and its snapshots and proofs must be byte-identical to a never-stopped server's; distinct = distinct (sequence, composition, back-end, stop point) cases")
	r.Assume("the assertion-enabled system librocksdb turns leaked iterators/column families at Close into SIGABRT, which is what makes the exit-status oracle sensitive", "raft's own start-up (log replay) is the real hashicorp/raft")
	if r.Replay == "" || true {
		resources(r)
		balloonLevel(r)
		nodeLevel(r)
	}
	r.Finish()
}
