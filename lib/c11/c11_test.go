//go:build verif

// Package c11: no client request can crash or wedge a server. A real single-node server (real raft,
// real RocksDB, real API + management muxes) runs in a child process; every request of a grammar-built
// alphabet is delivered from log sizes 0, 1 and 4, then every ordered pair of the requests that reach
// the back-end; after state-changing requests the server is restarted on its data (log replay).
package c11

import (
	"bytes"
	"encoding/json"
	"fmt"
	"os"
	"path/filepath"
	"strings"
	"testing"

	"github.com/bbva/qed/balloon"
	"github.com/bbva/qed/crypto/hashing"
	"github.com/bbva/qed/protocol"
	"github.com/bbva/qed/verifx/ev"
	"github.com/bbva/qed/verifx/nx"
)

func TestMain(m *testing.M) {
	if nx.ChildMain() {
		return
	}
	os.Exit(m.Run())
}

type request struct {
	Mux    string `json:"mux"`
	Method string `json:"method"`
	Path   string `json:"path"`
	Label  string `json:"body"` // class of the body, stable
	body   []byte
	nobody bool
	deep   bool // reaches the back-end (used for the pair phase)
}

func (q request) id() string { return q.Method + " " + q.Mux + ":" + q.Path + " [" + q.Label + "]" }

// the first event of every non-empty log the harness builds, so that queries can name an event that exists
var knownEvent = []byte("known-event")

func knownKey() string {
	b, _ := json.Marshal(knownEvent)
	return string(b)
}

func knownDigest() string {
	b, _ := json.Marshal([]byte(hashing.NewSha256Hasher().Do(knownEvent)))
	return string(b)
}

func b64(n int) string {
	b, _ := json.Marshal(bytes.Repeat([]byte{0xAB}, n))
	return string(b)
}

// bodies builds the body classes for an endpoint from its valid JSON and its fields.
type field struct {
	name   string
	values map[string]string // label -> raw JSON value
}

func objBodies(valid map[string]string, fields []field) map[string]string {
	out := map[string]string{}
	mk := func(m map[string]string) string {
		var parts []string
		for _, f := range fields {
			if v, ok := m[f.name]; ok {
				parts = append(parts, fmt.Sprintf("%q:%s", f.name, v))
			}
		}
		return "{" + strings.Join(parts, ",") + "}"
	}
	out["valid"] = mk(valid)
	for _, f := range fields {
		m := map[string]string{}
		for k, v := range valid {
			m[k] = v
		}
		delete(m, f.name)
		out[f.name+" absent"] = mk(m)
		for label, v := range f.values {
			m[f.name] = v
			out[f.name+"="+label] = mk(m)
		}
	}
	full := out["valid"]
	for _, cut := range []int{1, len(full) / 2, len(full) - 1} {
		if cut > 0 && cut < len(full) {
			out[fmt.Sprintf("valid truncated at %d", cut)] = full[:cut]
		}
	}
	return out
}

// "$N" is replaced at delivery time by the number of events in the log ($N-1 = the current version)
var numbers = map[string]string{"n-1": "$N-1", "n": "$N", "n+1": "$N+1", "0": "0", "3": "3", "4": "4", "2^63-1": "9223372036854775807", "2^63": "9223372036854775808", "2^64-1": "18446744073709551615", "-1": "-1", "1e30": "1e30", "null": "null", "string": "\"x\"", "object": "{}"}

func digests() map[string]string {
	m := map[string]string{"null": "null", "number": "7", "array": "[1]", "not base64": "\"!!\""}
	for _, n := range []int{0, 1, 31, 32, 33, 64} {
		m[fmt.Sprintf("%d bytes", n)] = b64(n)
	}
	return m
}

func alphabet() []request {
	var out []request
	generic := map[string]string{"empty": "", "null": "null", "{}": "{}", "[]": "[]", "garbage": "\x00\xffnot json", "number": "7", "string": "\"x\""}
	methods := []string{"GET", "HEAD", "POST", "PUT", "DELETE"}
	type ep struct {
		mux, path string
		method    string // the method that reaches the handler body
		bodies    map[string]string
	}
	bigEvents := "[" + strings.Repeat(b64(8)+",", 1999) + b64(8) + "]"
	eps := []ep{
		{"api", "/healthcheck", "HEAD", nil},
		{"api", "/info", "GET", nil},
		{"api", "/info/shards", "GET", nil},
		{"api", "/unknown", "GET", nil},
		{"api", "/events", "POST", objBodies(map[string]string{"event": b64(12)}, []field{{"event", map[string]string{"null": "null", "empty": "\"\"", "number": "7", "array": "[]", "large": b64(100000)}}})},
		{"api", "/events/bulk", "POST", objBodies(map[string]string{"events": "[" + b64(5) + "," + b64(6) + "]"}, []field{{"events", map[string]string{"null": "null", "empty list": "[]", "one empty element": "[\"\"]", "one null element": "[null]", "2000 elements": bigEvents, "string": "\"x\"", "object": "{}", "duplicates": "[" + b64(5) + "," + b64(5) + "]", "the same event three times": "[" + b64(7) + "," + b64(7) + "," + b64(7) + "]", "the same event five times among others": "[" + b64(9) + "," + b64(3) + "," + b64(9) + "," + b64(9) + "," + b64(4) + "," + b64(9) + "," + b64(9) + "]", "an event that is already in the log, twice": "[" + knownKey() + "," + knownKey() + "]"}}})},
		{"api", "/proofs/membership", "POST", objBodies(map[string]string{"key": knownKey(), "version": "0"}, []field{{"key", map[string]string{"null": "null", "empty": "\"\"", "number": "1", "never added": b64(12)}}, {"version", numbers}})},
		{"api", "/proofs/digest-membership", "POST", objBodies(map[string]string{"keyDigest": knownDigest(), "version": "0"}, []field{{"keyDigest", digests()}, {"version", numbers}})},
		{"api", "/proofs/incremental", "POST", objBodies(map[string]string{"start": "0", "end": "0"}, []field{{"start", numbers}, {"end", numbers}})},
		{"mgmt", "/backup", "POST", nil},
		{"mgmt", "/backups", "GET", nil},
		{"mgmt", "/backup?backupID=1", "DELETE", nil},
		{"mgmt", "/backup?backupID=0", "DELETE", nil},
		{"mgmt", "/backup?backupID=99", "DELETE", nil},
		{"mgmt", "/backup?backupID=abc", "DELETE", nil},
		{"mgmt", "/backup?backupID=", "DELETE", nil},
		{"mgmt", "/backup", "DELETE", nil},
		{"mgmt", "/backup?other=1", "DELETE", nil},
		{"mgmt", "/nothing", "GET", nil},
	}
	for _, e := range eps {
		for _, m := range methods {
			// every method with no body and with the generic bodies
			out = append(out, request{Mux: e.mux, Method: m, Path: e.path, Label: "no body", nobody: true, deep: m == e.method && e.bodies == nil})
			if m == e.method || m == "POST" {
				for label, b := range generic {
					out = append(out, request{Mux: e.mux, Method: m, Path: e.path, Label: label, body: []byte(b), deep: false})
				}
			}
		}
		for label, b := range e.bodies {
			out = append(out, request{Mux: e.mux, Method: e.method, Path: e.path, Label: label, body: []byte(b), deep: true})
		}
	}
	// deterministic order, simplest first
	sortReqs(out)
	return out
}

func sortReqs(rs []request) {
	for i := 1; i < len(rs); i++ {
		for j := i; j > 0 && less(rs[j], rs[j-1]); j-- {
			rs[j], rs[j-1] = rs[j-1], rs[j]
		}
	}
}
func less(a, b request) bool {
	if len(a.body) != len(b.body) {
		return len(a.body) < len(b.body)
	}
	return a.id() < b.id()
}

// ---------------------------------------------------------------- the server under test

type server struct {
	r        *ev.Run
	c        *nx.Child
	db, rf   string
	n        int // events added by the harness (probe + setup)
	snaps    map[uint64]*protocol.Snapshot
	seq      int
	base     string
	gen      int
	useKnown bool
}

func (s *server) fresh(logSize int) bool {
	if s.c != nil {
		s.c.Kill()
	}
	// the scratch area is a tmpfs: RocksDB preallocates its WAL there, so old data directories must go
	if s.db != "" {
		os.RemoveAll(s.db)
		os.RemoveAll(s.rf)
	}
	s.gen++
	s.db = filepath.Join(s.base, fmt.Sprintf("db%d", s.gen))
	s.rf = filepath.Join(s.base, fmt.Sprintf("raft%d", s.gen))
	c, err := nx.Start(s.db, s.rf)
	if err != nil {
		s.r.Violation("harness: a fresh server does not start: "+err.Error(), nil)
		return false
	}
	s.c, s.n, s.snaps = c, 0, map[uint64]*protocol.Snapshot{}
	for i := 0; i < logSize; i++ {
		s.useKnown = i == 0
		if ok, _ := s.add(); !ok {
			return false
		}
	}
	return true
}

func (s *server) add() (bool, string) {
	s.seq++
	evt := []byte(fmt.Sprintf("probe-%d-%d", s.gen, s.seq))
	if s.useKnown {
		evt, s.useKnown = knownEvent, false
	}
	b, _ := json.Marshal(protocol.Event{Event: evt})
	res, err := s.c.HTTP("api", "POST", "/events", b)
	if err != nil {
		return false, "the server died or wedged on a plain add"
	}
	if res.Status != 201 {
		return false, fmt.Sprintf("a plain add is answered with status %d", res.Status)
	}
	var snap protocol.Snapshot
	if json.Unmarshal(res.Body, &snap) != nil {
		return false, "a plain add returns an undecodable snapshot"
	}
	s.snaps[snap.Version] = &snap
	// membership of the fresh event at its own version
	q, _ := json.Marshal(protocol.MembershipQuery{Key: evt, Version: &snap.Version})
	res, err = s.c.HTTP("api", "POST", "/proofs/membership", q)
	if err != nil || res.Status != 200 {
		return false, "membership of a freshly added event is not served"
	}
	var mr protocol.MembershipResult
	if json.Unmarshal(res.Body, &mr) != nil {
		return false, "membership answer undecodable"
	}
	bs := balloon.Snapshot(snap)
	ok := false
	ev.Catch(func() { ok = protocol.ToBalloonProof(&mr, hashing.NewSha256Hasher).Verify(evt, &bs) })
	if !ok {
		return false, "the membership proof of a freshly added event does not verify against its snapshot"
	}
	// consistency with the oldest snapshot this harness has seen
	var oldest uint64 = snap.Version
	for v := range s.snaps {
		if v < oldest {
			oldest = v
		}
	}
	q, _ = json.Marshal(protocol.IncrementalRequest{Start: oldest, End: snap.Version})
	res, err = s.c.HTTP("api", "POST", "/proofs/incremental", q)
	if err != nil || res.Status != 200 {
		return false, "a consistency proof between two issued versions is not served"
	}
	var ir protocol.IncrementalResponse
	if json.Unmarshal(res.Body, &ir) != nil {
		return false, "incremental answer undecodable"
	}
	a, b2 := balloon.Snapshot(*s.snaps[oldest]), balloon.Snapshot(snap)
	ok = false
	ev.Catch(func() { ok = protocol.ToIncrementalProof(&ir, hashing.NewSha256Hasher).Verify(&a, &b2) })
	if !ok {
		return false, "a consistency proof between two issued versions does not verify"
	}
	s.n++
	return true, ""
}

// deliver sends one request and evaluates the oracles that do not need a probe.
func (s *server) deliver(q request, ctx string) (alive bool, res nx.Resp) {
	body := q.body
	if bytes.Contains(body, []byte("$N")) {
		st, _ := s.c.Do(nx.Req{Op: "state"})
		n := int64(st.Version)
		body = bytes.ReplaceAll(body, []byte("$N-1"), []byte(fmt.Sprint(n-1)))
		body = bytes.ReplaceAll(body, []byte("$N+1"), []byte(fmt.Sprint(n+1)))
		body = bytes.ReplaceAll(body, []byte("$N"), []byte(fmt.Sprint(n)))
	}
	res, err := s.c.Do(nx.Req{Op: "http", Mux: q.Mux, Method: q.Method, Path: q.Path, Body: body, NoBody: q.nobody})
	s.r.Eval(1)
	det := map[string]interface{}{"request": q, "context": ctx}
	if err != nil {
		det["stderr"] = lastPanic(s.c.Stderr())
		s.r.Violation("the server process dies or wedges on: "+q.id(), det)
		return false, res
	}
	if res.Panic != "" {
		det["panic"] = res.Panic
		s.r.Violation("the request handler panics (the client sees a dropped connection) on: "+q.id(), det)
	} else if res.Status < 100 || res.Status > 599 {
		det["status"] = res.Status
		s.r.Violation("malformed HTTP response (status outside 100..599) on: "+q.id(), det)
	}
	s.r.Outcome(fmt.Sprintf("%s %s %d", q.Method, strings.Split(q.Path, "?")[0], res.Status))
	return true, res
}

func lastPanic(stderr string) string {
	for _, l := range strings.Split(stderr, "\n") {
		if strings.HasPrefix(l, "panic:") || strings.HasPrefix(l, "fatal error:") || strings.Contains(l, "Assertion") {
			return l
		}
	}
	if len(stderr) > 300 {
		return stderr[len(stderr)-300:]
	}
	return stderr
}

// restart stops the server cleanly and starts it on the same data: every replicated command is replayed.
func (s *server) restart(q request, ctx string) bool {
	_, code, stderr := s.c.Close()
	if code != 0 {
		s.r.Violation("after "+q.id()+" the server cannot be shut down cleanly", map[string]interface{}{"request": q, "context": ctx, "exit": code, "stderr": lastPanic(stderr)})
	}
	c, err := nx.Start(s.db, s.rf)
	if err != nil {
		s.r.Violation("after "+q.id()+" the server does not come up again on its data (the replicated log is poisoned)", map[string]interface{}{"request": q, "context": ctx, "error": lastPanic(err.Error())})
		s.c = nil
		return false
	}
	s.c = c
	return true
}

func TestC11(t *testing.T) {
	r := ev.Begin("C11")
	r.Rule("alphabet = {GET,HEAD,POST,PUT,DELETE} x every path of the API and management muxes (+ unknown paths, backupID absent/empty/non-numeric/0/unknown) x bodies from a grammar (none, empty, null, {}, [], garbage, scalars, the valid body, the valid body truncated, every field absent / null / wrong type / boundary number 0,n-1,n,2^63-1,2^63,2^64-1,-1,1e30, collections empty / with an empty or null element / with 2000 elements / with duplicates, digests of 0,1,31,32,33,64 bytes); every single request from log sizes 0, 1 and 4 on a real single-node server in a child process; then every ordered pair of the requests that reach the back-end; oracle: no handler panic, status in 100..599, process alive, and afterwards a fresh add + its membership proof + a consistency proof verify; if the request grew the log the server is restarted on its data and probed again; distinct = distinct requests")
	r.Assume("requests are delivered to the real muxes (wrapped in the real LogHandler) through httptest recorders inside the server process: net/http's own parsing of the wire is not exercised, and a handler panic is what net/http would turn into a dropped connection", "single-node cluster: the command is applied by the same node that proposed it; a command that kills the FSM kills every replica alike")
	base := os.Getenv("VERIF_SCRATCH_DIR")
	alpha := alphabet()
	r.Bound("requests", len(alpha))
	if r.Replay != "" {
		var rd struct {
			Detail struct {
				Request request `json:"request"`
			} `json:"detail"`
		}
		b, _ := os.ReadFile(r.Replay)
		json.Unmarshal(b, &rd)
		var sel []request
		for _, q := range alpha {
			if q.id() == rd.Detail.Request.id() {
				sel = append(sel, q)
			}
		}
		alpha = sel
	}
	sizes := []int{0, 1, 4}
	type job struct {
		size int
		part int
	}
	parts := 4
	var jobs []job
	for _, sz := range sizes {
		for p := 0; p < parts; p++ {
			jobs = append(jobs, job{sz, p})
		}
	}
	ev.ParallelFor(len(jobs), 12, func(ji int) {
		if !r.Mine(ji) {
			return
		}
		j := jobs[ji]
		s := &server{r: r, base: filepath.Join(base, fmt.Sprintf("j%d", ji))}
		os.MkdirAll(s.base, 0755)
		if !s.fresh(j.size) {
			return
		}
		ctx := fmt.Sprintf("single request on a log of %d events", j.size)
		for qi, q := range alpha {
			if qi%parts != j.part {
				continue
			}
			before, _ := s.c.Do(nx.Req{Op: "state"})
			alive, _ := s.deliver(q, ctx)
			if !alive {
				// is the log poisoned? try to come up again on the same data
				c, err := nx.Start(s.db, s.rf)
				if err != nil {
					r.Violation("after "+q.id()+" the server does not come up again on its data (the replicated log is poisoned)", map[string]interface{}{"request": q, "context": ctx, "error": lastPanic(err.Error())})
				} else {
					c.Kill()
				}
				if !s.fresh(j.size) {
					return
				}
				continue
			}
			after, err := s.c.Do(nx.Req{Op: "state"})
			if err != nil {
				r.Violation("the server process dies or wedges right after: "+q.id(), map[string]interface{}{"request": q, "context": ctx})
				if !s.fresh(j.size) {
					return
				}
				continue
			}
			changed := after.Version != before.Version || after.FsmIndex != before.FsmIndex || after.Tables != before.Tables
			if q.deep || changed {
				if ok, why := s.add(); !ok {
					r.Violation("after "+q.id()+" the server no longer serves correct answers: "+why, map[string]interface{}{"request": q, "context": ctx})
					if !s.fresh(j.size) {
						return
					}
					continue
				}
			}
			if changed {
				if !s.restart(q, ctx) {
					if !s.fresh(j.size) {
						return
					}
					continue
				}
				if ok, why := s.add(); !ok {
					r.Violation("after "+q.id()+" and a restart (log replay) the server no longer serves correct answers: "+why, map[string]interface{}{"request": q, "context": ctx})
					if !s.fresh(j.size) {
						return
					}
				}
			}
			r.Distinct(q.id())
		}
		if s.c != nil {
			s.c.Kill()
		}
	})
	// pairs of back-end-reaching requests
	var deep []request
	for _, q := range alpha {
		if q.deep && len(q.body) < 5000 {
			deep = append(deep, q)
		}
	}
	if !r.Thorough() { // quick: one representative per (endpoint, field) class for the first element
		var d2 []request
		seen := map[string]bool{}
		for _, q := range deep {
			k := q.Method + q.Path + strings.Split(q.Label, "=")[0]
			if !seen[k] {
				seen[k] = true
				d2 = append(d2, q)
			}
		}
		deep = d2
	}
	r.Bound("pair_alphabet", len(deep))
	pjobs := 8
	ev.ParallelFor(pjobs, 8, func(pj int) {
		if r.Replay != "" {
			return
		}
		s := &server{r: r, base: filepath.Join(base, fmt.Sprintf("p%d", pj))}
		os.MkdirAll(s.base, 0755)
		if !s.fresh(2) {
			return
		}
		k := 0
		for _, a := range deep {
			for _, b := range deep {
				k++
				if k%pjobs != pj {
					continue
				}
				ctx := "pair: first " + a.id()
				ok1, _ := s.deliver(a, "first of a pair")
				ok2 := false
				if ok1 {
					ok2, _ = s.deliver(b, ctx)
				}
				if ok1 && ok2 {
					if ok, why := s.add(); !ok {
						r.Violation("after the pair ("+a.id()+", "+b.id()+") the server no longer serves correct answers: "+why, map[string]interface{}{"request": b, "context": ctx})
						ok2 = false
					}
				}
				if !ok1 || !ok2 {
					if !s.fresh(2) {
						return
					}
				}
				r.Distinct("pair " + a.id() + " | " + b.id())
			}
		}
		// finally: restart on the accumulated log and probe
		if s.c != nil {
			if s.restart(request{Method: "-", Path: "all pairs of this shard", Label: "-"}, "end of pair phase") {
				if ok, why := s.add(); !ok {
					r.Violation("after the pair phase and a restart the server no longer serves correct answers: "+why, nil)
				}
			}
			if s.c != nil {
				s.c.Kill()
			}
		}
	})
	r.Sample(alpha[0])
	r.Sample(alpha[len(alpha)/2])
	r.Sample(alpha[len(alpha)-1])
	r.Finish()
}
