//go:build verif

// Package c10: queries concurrent with insertions are answered from a consistent state.
// The real apply path (RaftNode.Apply -> applyAdd -> Balloon.AddBulk -> store.Mutate) and the real
// query entry points run as threads of the controlled scheduler (verifx/sx): balloon.go,
// hyper/tree.go and hyper/batch_cache.go are built with their sync import, go statements and
// lock operations under the scheduler's control, and every call of the injected store is a
// scheduling point. ALL interleavings with at most N preemptions are executed.
package c10

import (
	"encoding/json"
	"fmt"
	"io"
	"os"
	"strings"
	"sync"
	"testing"
	"time"

	"github.com/bbva/qed/balloon"
	"github.com/bbva/qed/balloon/hyper"
	"github.com/bbva/qed/consensus"
	"github.com/bbva/qed/crypto/hashing"
	"github.com/bbva/qed/metrics"
	"github.com/bbva/qed/storage"
	"github.com/bbva/qed/storage/bplus"
	"github.com/bbva/qed/verifx/ev"
	"github.com/bbva/qed/verifx/fx"
	"github.com/bbva/qed/verifx/hx"
	"github.com/bbva/qed/verifx/sx"
	"github.com/hashicorp/raft"
)

// ---------------------------------------------------------------- the injected store: every call is a scheduling point

type ystore struct {
	s *bplus.BPlusTreeStore
}

func (y ystore) Mutate(m []*storage.Mutation, meta []byte) error {
	sx.Yield("store.Mutate")
	return y.s.Mutate(m, meta) // one atomic step, like a RocksDB write batch
}
func (y ystore) GetRange(t storage.Table, a, b []byte) (storage.KVRange, error) {
	sx.Yield("store.GetRange")
	return y.s.GetRange(t, a, b)
}
func (y ystore) Get(t storage.Table, k []byte) (*storage.KVPair, error) {
	sx.Yield("store.Get")
	return y.s.Get(t, k)
}
func (y ystore) GetAll(t storage.Table) storage.KVPairReader {
	sx.Yield("store.GetAll")
	return y.s.GetAll(t)
}
func (y ystore) GetLast(t storage.Table) (*storage.KVPair, error) {
	sx.Yield("store.GetLast")
	return y.s.GetLast(t)
}
func (y ystore) Close() error                                   { return y.s.Close() }
func (y ystore) Backup(string) error                            { return nil }
func (y ystore) GetBackupsInfo() []*storage.BackupInfo          { return nil }
func (y ystore) DeleteBackup(uint32) error                      { return nil }
func (y ystore) RestoreFromBackup(uint32, string, string) error { return nil }
func (y ystore) FetchSnapshot(w io.WriteCloser, a, b uint64, v storage.ValidateF) error {
	return nil
}
func (y ystore) LoadSnapshot(io.ReadCloser) error          { return nil }
func (y ystore) LastWALSequenceNumber() uint64             { return 0 }
func (y ystore) RegisterMetrics(registry metrics.Registry) {}

// ---------------------------------------------------------------- scenarios

type query struct {
	Kind string `json:"kind"` // member | memberAt | consistency | memberEvent | memberEventAt
	E    int    `json:"event,omitempty"`
	Q    uint64 `json:"version,omitempty"`
	I    uint64 `json:"start,omitempty"`
	J    uint64 `json:"end,omitempty"`
}

func (q query) String() string {
	switch q.Kind {
	case "member":
		return fmt.Sprintf("member(e%d)", q.E)
	case "memberAt":
		return fmt.Sprintf("memberAt(e%d,%d)", q.E, q.Q)
	case "memberEvent":
		return "memberByEvent(never added)"
	case "memberEventAt":
		return fmt.Sprintf("memberByEventAt(never added,%d)", q.Q)
	}
	return fmt.Sprintf("consistency(%d,%d)", q.I, q.J)
}

type scenario struct {
	Pre     int       `json:"eventsBefore"`
	Entries []int     `json:"entriesInFlight"` // bulk sizes applied by the apply thread
	Readers [][]query `json:"readers"`         // one list of queries per reader thread
	Bound   int       `json:"preemptionBound"`
}

func (s scenario) String() string {
	var rs []string
	for _, r := range s.Readers {
		var qs []string
		for _, q := range r {
			qs = append(qs, q.String())
		}
		rs = append(rs, strings.Join(qs, ","))
	}
	return fmt.Sprintf("pre=%d apply=%v readers=[%s]", s.Pre, s.Entries, strings.Join(rs, " || "))
}

func total(s scenario) int {
	n := s.Pre
	for _, k := range s.Entries {
		n += k
	}
	return n
}

// golden snapshots of the sequential log (by version)
var (
	gmu     sync.Mutex
	goldens = map[int][]*balloon.Snapshot{}
)

func golden(n int) []*balloon.Snapshot {
	gmu.Lock()
	defer gmu.Unlock()
	if g, ok := goldens[n]; ok {
		return g
	}
	var snaps []*balloon.Snapshot
	sx.Setup(func() {
		d, err := hx.NewDriver(hx.BPlus, "", 300)
		if err != nil {
			panic(err)
		}
		for i := 0; i < n; i++ {
			s, err := d.Apply([][]byte{fx.Digest(i)}, false)
			if err != nil {
				panic(err)
			}
			snaps = append(snaps, s...)
		}
		d.Close()
	})
	goldens[n] = snaps
	return snaps
}

var (
	poolMu sync.Mutex
	pool   []*hyper.BatchCache
)

func allKeys() [][]byte {
	var ks [][]byte
	for i := 0; i < 12; i++ {
		ks = append(ks, fx.Digest(i))
	}
	return ks
}

type world struct {
	node *consensus.RaftNode
	bc   *hyper.BatchCache
}

func build(pre int) *world {
	poolMu.Lock()
	var bc *hyper.BatchCache
	if k := len(pool); k > 0 {
		bc, pool = pool[k-1], pool[:k-1]
	}
	poolMu.Unlock()
	if bc == nil {
		bc = hyper.NewBatchCache(hyper.DefaultBatchLevels)
	}
	n, err := consensus.VerifNewBareNode("n0", ystore{bplus.NewBPlusTreeStore()}, bc, nil)
	if err != nil {
		panic(err)
	}
	w := &world{n, bc}
	for i := 0; i < pre; i++ {
		w.apply(uint64(i+1), i, 1)
	}
	return w
}

func (w *world) release() {
	w.node.VerifCloseBare()
	if w.bc.VerifReset(allKeys()) {
		poolMu.Lock()
		pool = append(pool, w.bc)
		poolMu.Unlock()
	}
}

func (w *world) apply(index uint64, first, k int) {
	hs := make([]hashing.Digest, k)
	for i := 0; i < k; i++ {
		hs[i] = fx.Digest(first + i)
	}
	data, err := consensus.VerifEncodeAddCommand(hs)
	if err != nil {
		panic(err)
	}
	w.node.Apply(&raft.Log{Index: index, Term: 1, Type: raft.LogCommand, Data: data})
}

// run one query and judge its answer against the sequential log
func (w *world) ask(x *sx.Exec, s scenario, q query, g []*balloon.Snapshot) {
	n := uint64(len(g))
	switch q.Kind {
	case "memberEvent", "memberEventAt":
		// the event-based entry points (they hash the event themselves); the event was never added
		var p *balloon.MembershipProof
		var err error
		if q.Kind == "memberEvent" {
			p, err = w.node.QueryMembership([]byte("an event that was never added"))
		} else {
			p, err = w.node.QueryMembershipConsistency([]byte("an event that was never added"), q.Q)
		}
		if err != nil {
			x.Observe(q.String() + "=error")
			return
		}
		x.Observe(fmt.Sprintf("%s=exists:%v", q, p.Exists))
		if p.Exists {
			x.Fail("a membership answer claims existence of an event that was never added", q.String())
		}
	case "member", "memberAt":
		d := fx.Digest(q.E)
		var p *balloon.MembershipProof
		var err error
		if q.Kind == "member" {
			p, err = w.node.QueryDigestMembership(d)
		} else {
			p, err = w.node.QueryDigestMembershipConsistency(d, q.Q)
		}
		if err != nil {
			x.Observe(q.String() + "=error")
			return
		}
		if p.CurrentVersion >= n && !(p.CurrentVersion == ^uint64(0)) {
			x.Fail("a membership answer names a current version the log never reached", map[string]interface{}{"query": q.String(), "current": p.CurrentVersion})
			return
		}
		if p.CurrentVersion == ^uint64(0) { // empty log
			x.Observe(q.String() + "=absent@empty")
			if p.Exists {
				x.Fail("a membership answer claims existence in an empty log", q.String())
			}
			return
		}
		if !p.Exists {
			x.Observe(fmt.Sprintf("%s=absent@%d", q, p.CurrentVersion))
			if uint64(q.E) <= p.CurrentVersion {
				x.Fail("a membership answer mixes states: it denies an event whose version is not later than the current version it reports", map[string]interface{}{"query": q.String(), "eventVersion": q.E, "current": p.CurrentVersion})
			}
			return
		}
		x.Observe(fmt.Sprintf("%s=v%d,q%d,c%d", q, p.ActualVersion, p.QueryVersion, p.CurrentVersion))
		qv := p.QueryVersion
		if qv > p.CurrentVersion {
			qv = p.CurrentVersion
		}
		snap := &balloon.Snapshot{HistoryDigest: g[qv].HistoryDigest, HyperDigest: g[p.CurrentVersion].HyperDigest}
		wp, _, err := hx.WireMembership(p)
		ok := false
		if err == nil {
			if p.QueryVersion > p.CurrentVersion {
				wp.QueryVersion = qv // the server clamps the version it proves against; the client knows the current version
			}
			ev.Catch(func() { ok = wp.DigestVerify(d, snap) })
		}
		if !ok || p.ActualVersion != uint64(q.E) {
			x.Fail("a membership proof served while an insertion is in flight does not verify against the snapshots issued for the versions it names", map[string]interface{}{"query": q.String(), "actual": p.ActualVersion, "queryVersion": p.QueryVersion, "current": p.CurrentVersion})
		}
	case "consistency":
		p, err := w.node.QueryConsistency(q.I, q.J)
		if err != nil {
			x.Observe(q.String() + "=error")
			return
		}
		x.Observe(q.String() + "=proof")
		wp, _, err := hx.WireIncremental(p)
		ok := false
		if err == nil && q.J < n {
			ev.Catch(func() { ok = wp.Verify(g[q.I], g[q.J]) })
		}
		if !ok {
			x.Fail("a consistency proof served while an insertion is in flight does not verify against the snapshots issued for its versions", q.String())
		}
	}
}

func body(s scenario) func(x *sx.Exec) {
	g := golden(total(s))
	return func(x *sx.Exec) {
		var w *world
		sx.Setup(func() { w = build(s.Pre) })
		defer sx.Setup(func() { w.release() })
		var wg sx.WaitGroup
		wg.Add(1 + len(s.Readers))
		sx.GoNamed("apply", false, func() {
			defer wg.Done()
			first := s.Pre
			for i, k := range s.Entries {
				w.apply(uint64(s.Pre+i+1), first, k)
				first += k
			}
		})
		for ri, qs := range s.Readers {
			qs := qs
			sx.GoNamed(fmt.Sprintf("reader%d", ri), false, func() {
				defer wg.Done()
				for _, q := range qs {
					w.ask(x, s, q, g)
				}
			})
		}
		wg.Wait()
		// afterwards the node must be exactly the sequential one
		sx.Setup(func() {
			if v := w.node.VerifBalloon().Version(); v != uint64(len(g)) {
				x.Fail("after the concurrent run the log does not hold the events that were applied", v)
			}
			last := uint64(len(g) - 1)
			for e := 0; e < len(g); e++ {
				p, err := w.node.QueryDigestMembership(fx.Digest(e))
				ok := false
				if err == nil && p.Exists {
					snap := &balloon.Snapshot{HistoryDigest: g[last].HistoryDigest, HyperDigest: g[last].HyperDigest}
					ev.Catch(func() { ok = p.DigestVerify(fx.Digest(e), snap) })
				}
				if !ok {
					x.Fail("after the concurrent run an applied event no longer has a verifying proof", e)
				}
			}
		})
	}
}

func scenarios(thorough bool) []scenario {
	var out []scenario
	bound := 2
	for _, pre := range []int{0, 1, 3, 4} {
		for _, ent := range [][]int{{1}, {2}} {
			n := pre + ent[0]
			inflight := pre // first in-flight event
			var qs []query
			qs = append(qs, query{Kind: "member", E: inflight})
			if pre > 0 {
				qs = append(qs, query{Kind: "member", E: 0}, query{Kind: "memberAt", E: 0, Q: uint64(pre - 1)}, query{Kind: "consistency", I: 0, J: uint64(pre - 1)})
			}
			qs = append(qs, query{Kind: "memberAt", E: inflight, Q: uint64(n - 1)}, query{Kind: "consistency", I: 0, J: uint64(n - 1)})
			if pre == 3 && ent[0] == 1 || thorough {
				qs = append(qs, query{Kind: "memberEvent"}, query{Kind: "memberEventAt", Q: uint64(pre)})
				qs[len(qs)-3], qs[len(qs)-1] = qs[len(qs)-1], qs[len(qs)-3] // keep the full-range consistency query last
			}
			for qi, q := range qs {
				if !thorough {
					// quick: every query kind from a log of 3 events with a single in-flight event; for the other
					// shapes the in-flight membership and the full-range consistency query only (logs of 1 event
					// are the expensive ones: ~10k executions per scenario)
					full := pre == 3 && ent[0] == 1
					if !full && !(qi == 0 || qi == len(qs)-1) {
						continue
					}
					if ent[0] == 2 && pre != 3 {
						continue
					}
				}
				out = append(out, scenario{Pre: pre, Entries: ent, Readers: [][]query{{q}}, Bound: bound})
			}
		}
	}
	if thorough {
		// two entries in flight
		out = append(out, scenario{Pre: 1, Entries: []int{1, 1}, Readers: [][]query{{{Kind: "member", E: 1}, {Kind: "consistency", I: 0, J: 1}}}, Bound: bound})
		// two readers at once (a third controlled thread multiplies the free switches: bound 1)
		out = append(out,
			scenario{Pre: 1, Entries: []int{1}, Readers: [][]query{{{Kind: "member", E: 0}}, {{Kind: "member", E: 1}}}, Bound: 1},
			scenario{Pre: 3, Entries: []int{1}, Readers: [][]query{{{Kind: "consistency", I: 0, J: 2}}, {{Kind: "memberAt", E: 1, Q: 2}}}, Bound: 1},
		)
		for i := range out {
			if len(out[i].Readers) == 1 && len(out[i].Entries) == 1 && out[i].Pre+out[i].Entries[0] <= 2 {
				out[i].Bound = 3
			}
		}
	}
	return out
}

// TestC10Race: the same apply and reader bodies as free-running goroutines on an UNINSTRUMENTED build
// under the Go race detector (the cooperative scheduler's hand-offs are happens-before edges that
// would hide unsynchronised accesses). A sampler by nature: it can add a violation, it is not counted
// as coverage.
func TestC10Race(t *testing.T) {
	r := ev.Begin("C10")
	iters := 150
	if r.Thorough() {
		iters = 1500
	}
	scs := []scenario{
		{Pre: 1, Entries: []int{1, 2}, Readers: [][]query{{{Kind: "member", E: 0}, {Kind: "member", E: 1}, {Kind: "consistency", I: 0, J: 0}}, {{Kind: "memberAt", E: 0, Q: 0}, {Kind: "member", E: 3}, {Kind: "consistency", I: 0, J: 1}}}},
		{Pre: 3, Entries: []int{2, 1}, Readers: [][]query{{{Kind: "consistency", I: 0, J: 2}, {Kind: "member", E: 4}}, {{Kind: "member", E: 2}, {Kind: "memberAt", E: 1, Q: 2}}}},
	}
	fails := map[string]bool{}
	for it := 0; it < iters; it++ {
		s := scs[it%len(scs)]
		g := golden(total(s))
		var w *world
		sx.Setup(func() { w = build(s.Pre) })
		x := &sx.Exec{}
		var mu sync.Mutex
		var wg sync.WaitGroup
		wg.Add(1 + len(s.Readers))
		go func() {
			defer wg.Done()
			first := s.Pre
			for i, k := range s.Entries {
				w.apply(uint64(s.Pre+i+1), first, k)
				first += k
			}
		}()
		for _, qs := range s.Readers {
			qs := qs
			go func() {
				defer wg.Done()
				defer func() {
					if p := recover(); p != nil {
						mu.Lock()
						fails["panic in a reader (free-running pass): "+fmt.Sprint(p)] = true
						mu.Unlock()
					}
				}()
				for _, q := range qs {
					y := &sx.Exec{}
					w.ask(y, s, q, g)
					mu.Lock()
					x.Fails = append(x.Fails, y.Fails...)
					mu.Unlock()
				}
			}()
		}
		wg.Wait()
		for _, f := range x.Fails {
			fails[f.Sig+" (free-running pass)"] = true
		}
		sx.Setup(func() { w.release() })
	}
	for f := range fails {
		r.Violation(f, nil)
	}
	r.Extra("race_detector_iterations", iters)
	r.Finish()
}

func TestC10(t *testing.T) {
	r := ev.Begin("C10")
	r.Rule("threads of the controlled scheduler: apply (the real RaftNode.Apply -> applyAdd -> Balloon.AddBulk -> store.Mutate, one or two entries of 1-2 events) against one or two reader threads issuing the real RaftNode.QueryDigestMembership / QueryDigestMembershipConsistency / QueryConsistency for old and in-flight events, from logs of 0, 1, 3 and 4 events; scheduling points at every Lock/RLock of the balloon, the hyper tree and its batch cache, at the spawn and join of the history goroutine and at EVERY call of the injected store (Get, GetRange, GetAll, GetLast, Mutate); ALL interleavings with at most 2 (thorough: 3 for two-thread scenarios) preemptions; oracle: every answer is an error or a proof that, after the JSON round trip, verifies against the sequential log's snapshots for the versions it names, an absence answer never reports a current version at which the event exists, no thread panics, no deadlock, and afterwards the node equals the sequential one; distinct = scenarios; outcomes = distinct answer vectors observed")
	r.Assume("sequentially consistent memory; unsynchronised accesses are the subject of the separate free-running race-detector pass (TestC10Race), because the cooperative scheduler's hand-offs hide them", "a store call is one atomic step (RocksDB write batch / point read)", "prometheus counters and the logger run outside the scheduler's control (internally synchronised)")
	scs := scenarios(r.Thorough())
	if r.Replay != "" {
		var rd struct {
			Detail struct {
				Scenario scenario `json:"scenario"`
				Schedule []int    `json:"schedule"`
			} `json:"detail"`
		}
		b, _ := os.ReadFile(r.Replay)
		json.Unmarshal(b, &rd)
		e := &sx.Explorer{Body: body(rd.Detail.Scenario)}
		x, det := e.Replay(rd.Detail.Schedule)
		fmt.Printf("replay deterministic=%v\n%s\n", det, strings.Join(x.Trace, "\n"))
		for _, f := range x.Fails {
			r.Violation(f.Sig, map[string]interface{}{"scenario": rd.Detail.Scenario, "schedule": rd.Detail.Schedule})
		}
		for _, p := range x.Panics {
			r.Violation("panic in "+p, map[string]interface{}{"scenario": rd.Detail.Scenario, "schedule": rd.Detail.Schedule})
		}
		r.Finish()
		return
	}
	minBound := 99
	for i, s := range scs {
		if !r.Mine(i) {
			continue
		}
		s := s
		e := &sx.Explorer{MaxBound: s.Bound, MaxSteps: 5000, Body: body(s)}
		if r.OutOfTime() {
			r.Capped("time budget reached before scenario " + s.String())
			continue
		}
		e.Deadline = time.Now().Add(10 * time.Minute)
		e.OnFailure = func(x *sx.Exec, f sx.Failure, schedule []int) {
			// replay twice before believing it
			x2, det := e.Replay(schedule)
			if !det {
				r.Violation("HARNESS: NONDETERMINISM replaying a failing schedule", map[string]interface{}{"scenario": s, "schedule": schedule})
				return
			}
			r.Violation(f.Sig, map[string]interface{}{"scenario": s, "schedule": append([]int{}, schedule...), "trace": x2.Trace, "detail": f.Detail})
		}
		e.Run()
		if okr, badr := e.ValidateReplays(); badr > 0 {
			r.Violation("HARNESS: NONDETERMINISM: an explored schedule does not reproduce when replayed", nil)
		} else {
			r.Validated(okr)
		}
		r.Eval(e.Execs)
		r.States(e.Execs)
		r.Transitions(e.PointsTotal)
		r.Distinct(s.String())
		for k := range e.Outcomes {
			r.Outcome(s.String() + " => " + k)
		}
		if e.Capped != "" {
			r.Capped(s.String() + ": " + e.Capped)
		}
		if e.BoundCompleted < minBound {
			minBound = e.BoundCompleted
		}
		if i%7 == 0 {
			r.Sample(map[string]interface{}{"scenario": s.String(), "executions": e.Execs, "schedulingPoints": e.PointsTotal, "boundCompleted": e.BoundCompleted, "outcomes": len(e.Outcomes)})
		}
		fmt.Printf("[c10] %s: execs=%d points=%d bound=%d outcomes=%d failures=%v\n", s, e.Execs, e.PointsTotal, e.BoundCompleted, len(e.Outcomes), e.Failures)
	}
	if minBound != 99 {
		r.Bound("preemption_bound_completed_min", minBound)
	}
	r.Finish()
}
