// Package ev is the evidence/violation recorder shared by every harness.
// A harness run is one *shard*; the driver (/verif/bin/vcheck) merges shards,
// matches violations against KNOWN_FINDINGS.txt and writes the evidence file.
package ev

import (
	"crypto/sha256"
	"encoding/hex"
	"encoding/json"
	"fmt"
	"os"
	"path/filepath"
	"sort"
	"strconv"
	"strings"
	"sync"
	"time"
)

type Violation struct {
	Sig    string      `json:"sig"`    // stable signature: class of failure + call site, no volatile data
	Detail interface{} `json:"detail"` // first (shortest) failing case, replayable
	Count  int         `json:"count"`
}

type Run struct {
	mu          sync.Mutex
	ID          string
	Tier        string
	Shard, Of   int
	Replay      string
	start       time.Time
	deadline    time.Time
	evals       int64
	states      int64
	transitions int64
	validated   int64
	distinct    map[string]struct{}
	outcomes    map[string]struct{}
	samples     []interface{}
	maxSamples  int
	viol        map[string]*Violation
	violOrder   []string
	exhaustive  bool
	capNotes    []string
	bounds      map[string]interface{}
	assumptions []string
	rule        string
	extra       map[string]interface{}
}

// Begin reads VERIF_TIER, VERIF_SHARD ("i/n"), VERIF_OUT, VERIF_REPLAY, VERIF_BUDGET_S.
func Begin(id string) *Run {
	r := &Run{ID: id, Tier: os.Getenv("VERIF_TIER"), Of: 1, start: time.Now(),
		distinct: map[string]struct{}{}, outcomes: map[string]struct{}{}, viol: map[string]*Violation{},
		maxSamples: 5, exhaustive: true, bounds: map[string]interface{}{}, extra: map[string]interface{}{}}
	if r.Tier == "" {
		r.Tier = "quick"
	}
	if s := os.Getenv("VERIF_SHARD"); s != "" {
		p := strings.Split(s, "/")
		r.Shard, _ = strconv.Atoi(p[0])
		r.Of, _ = strconv.Atoi(p[1])
		if r.Of < 1 {
			r.Of = 1
		}
	}
	r.Replay = os.Getenv("VERIF_REPLAY")
	if b := os.Getenv("VERIF_BUDGET_S"); b != "" {
		n, _ := strconv.Atoi(b)
		if n > 0 {
			r.deadline = r.start.Add(time.Duration(n) * time.Second)
		}
	}
	return r
}

func (r *Run) Thorough() bool { return r.Tier == "thorough" }

// Mine reports whether work item i belongs to this shard.
func (r *Run) Mine(i int) bool { return i%r.Of == r.Shard }

// OutOfTime is an *internal* deadline: a run that hits it ends with exit 0 and exhaustive:false.
func (r *Run) OutOfTime() bool {
	if r.deadline.IsZero() {
		return false
	}
	return time.Now().After(r.deadline)
}

func (r *Run) Eval(n int) { r.mu.Lock(); r.evals += int64(n); r.mu.Unlock() }
func (r *Run) States(n int) {
	r.mu.Lock()
	r.states += int64(n)
	r.mu.Unlock()
}
func (r *Run) Transitions(n int) {
	r.mu.Lock()
	r.transitions += int64(n)
	r.mu.Unlock()
}
func (r *Run) Validated(n int) {
	r.mu.Lock()
	r.validated += int64(n)
	r.mu.Unlock()
}

func short(s string) string {
	h := sha256.Sum256([]byte(s))
	return hex.EncodeToString(h[:8])
}

// Distinct records a non-trivial case class (counted as a set, merged across shards).
func (r *Run) Distinct(key string) {
	k := short(key)
	r.mu.Lock()
	r.distinct[k] = struct{}{}
	r.mu.Unlock()
}

// Outcome records a distinct observed outcome (vacuity guard).
func (r *Run) Outcome(key string) {
	k := short(key)
	r.mu.Lock()
	r.outcomes[k] = struct{}{}
	r.mu.Unlock()
}

func (r *Run) Sample(v interface{}) {
	r.mu.Lock()
	if len(r.samples) < r.maxSamples {
		r.samples = append(r.samples, v)
	}
	r.mu.Unlock()
}

func (r *Run) Rule(s string)              { r.rule = s }
func (r *Run) Assume(s ...string)         { r.assumptions = append(r.assumptions, s...) }
func (r *Run) Bound(k string, v interface{}) { r.mu.Lock(); r.bounds[k] = v; r.mu.Unlock() }
func (r *Run) Extra(k string, v interface{}) { r.mu.Lock(); r.extra[k] = v; r.mu.Unlock() }
func (r *Run) Capped(note string) {
	r.mu.Lock()
	r.exhaustive = false
	for _, n := range r.capNotes {
		if n == note {
			r.mu.Unlock()
			return
		}
	}
	r.capNotes = append(r.capNotes, note)
	r.mu.Unlock()
}

// Violation records a property violation. sig must be stable across runs and must not
// contain volatile data (addresses, temp paths, timings).
func (r *Run) Violation(sig string, detail interface{}) {
	r.mu.Lock()
	defer r.mu.Unlock()
	if v, ok := r.viol[sig]; ok {
		v.Count++
		return
	}
	r.viol[sig] = &Violation{Sig: sig, Detail: detail, Count: 1}
	r.violOrder = append(r.violOrder, sig)
}

func (r *Run) NumViolations() int { r.mu.Lock(); defer r.mu.Unlock(); return len(r.viol) }

func keys(m map[string]struct{}) []string {
	o := make([]string, 0, len(m))
	for k := range m {
		o = append(o, k)
	}
	sort.Strings(o)
	return o
}

// Finish writes the shard file. The process exit status is decided by the driver.
func (r *Run) Finish() {
	r.mu.Lock()
	defer r.mu.Unlock()
	out := os.Getenv("VERIF_OUT")
	if out == "" {
		out = "."
	}
	vs := make([]*Violation, 0)
	for _, s := range r.violOrder {
		vs = append(vs, r.viol[s])
	}
	doc := map[string]interface{}{
		"property_id": r.ID, "tier": r.Tier, "shard": r.Shard, "of": r.Of,
		"evaluations": r.evals, "states": r.states, "transitions": r.transitions,
		"traces_validated_against_impl": r.validated,
		"distinct": keys(r.distinct), "outcomes": keys(r.outcomes),
		"samples": r.samples, "violations": vs, "exhaustive": r.exhaustive,
		"cap_notes": r.capNotes, "bounds": r.bounds, "assumptions": r.assumptions,
		"rule": r.rule, "extra": r.extra, "wall_s": time.Since(r.start).Seconds(),
	}
	b, err := json.MarshalIndent(doc, "", " ")
	if err != nil {
		panic(err)
	}
	p := filepath.Join(out, fmt.Sprintf("%s.shard%d.json", r.ID, r.Shard))
	if err := os.WriteFile(p, b, 0644); err != nil {
		panic(err)
	}
	fmt.Printf("[ev] %s shard %d/%d: evals=%d states=%d transitions=%d distinct=%d outcomes=%d violations=%d exhaustive=%v wall=%.1fs\n",
		r.ID, r.Shard, r.Of, r.evals, r.states, r.transitions, len(r.distinct), len(r.outcomes), len(r.viol), r.exhaustive, time.Since(r.start).Seconds())
}

// Catch runs f and converts a panic into (true, message).
func Catch(f func()) (panicked bool, msg string) {
	defer func() {
		if x := recover(); x != nil {
			panicked = true
			msg = fmt.Sprint(x)
		}
	}()
	f()
	return
}

// ParallelFor runs f(i) for i in [0,n) on w goroutines.
func ParallelFor(n, w int, f func(i int)) {
	if w < 1 {
		w = 1
	}
	var wg sync.WaitGroup
	ch := make(chan int)
	for k := 0; k < w; k++ {
		wg.Add(1)
		go func() {
			defer wg.Done()
			for i := range ch {
				f(i)
			}
		}()
	}
	for i := 0; i < n; i++ {
		ch <- i
	}
	close(ch)
	wg.Wait()
}

// Guard runs f; a panic escaping it is recorded as a violation (the code under test blew up in a
// place the harness did not expect) instead of killing the shard.
func (r *Run) Guard(what string, detail interface{}, f func()) {
	if pn, msg := Catch(f); pn {
		if i := len(msg); i > 140 {
			msg = msg[:140]
		}
		r.Violation("unexpected panic while "+what+": "+msg, detail)
	}
}
