//go:build verif && go1.18

// Package c18: gossip is bounded, processed once per agent and never self-addressed.
//
//	(1) routing: the real Agent.Send / route / Topology for EVERY topology of up to 3 other peers over
//	    3 roles, every source, TTL 0..3 and EVERY shuffle permutation;
//	(2) dissemination: explicit-state BFS over a 4-agent network (two agents share a role) with the
//	    real Send, Message encoding and BatchProcessor.wasProcessed at every hop, every delivery
//	    order, duplicate deliveries and every shuffle choice;
//	(3) at-most-once: the real BatchProcessor loop and message buses under the controlled scheduler,
//	    the same batch delivered 1..3 times from 1..2 peers plus a second batch;
//	(4) topology under concurrent joins, leaves, updates and sends: controlled scheduler (locks as
//	    scheduling points) and a free-running -race pass (TestC18Race).
package c18

import (
	"context"
	"encoding/json"
	"fmt"
	"os"
	"sort"
	"strings"
	"sync"
	"testing"
	"time"

	"github.com/bbva/qed/crypto/hashing"
	"github.com/bbva/qed/gossip"
	"github.com/bbva/qed/protocol"
	"github.com/bbva/qed/verifx/ev"
	"github.com/bbva/qed/verifx/hx"
	"github.com/bbva/qed/verifx/sx"
	"github.com/hashicorp/memberlist"
	"github.com/prometheus/client_golang/prometheus"
)

var roles = []string{"auditor", "monitor", "publisher"}

func peer(i int, role string) *gossip.Peer {
	return gossip.NewPeer(fmt.Sprintf("p%d", i), fmt.Sprintf("10.0.0.%d", i+1), uint16(7000+i), role)
}

var portSeq = 13000

func newAgent(name, role string) *gossip.Agent {
	conf := gossip.DefaultConfig()
	portSeq++
	if portSeq > 60000 {
		portSeq = 13001 // the address is only parsed: the agent is never started
	}
	conf.NodeName, conf.Role, conf.BindAddr = name, role, fmt.Sprintf("127.0.0.1:%d", portSeq)
	a, err := gossip.NewAgentFromConfig(conf)
	if err != nil {
		panic(err)
	}
	return a
}

// ---------------------------------------------------------------- owned randomness: every permutation

// permEnum owns PeerList.Shuffle: the permutation applied to a list is a function of the list's
// CONTENT (sorted names), not of the order in which Go's map iteration presents the lists, and all
// combinations of permutations of all lists seen during a run are enumerated (odometer).
type permEnum struct {
	sizes map[string]int   // key -> list length
	cur   map[string][]int // key -> Fisher-Yates choices
	Fixed map[string][]int // replay: recorded choices
}

func newPermEnum() *permEnum {
	return &permEnum{sizes: map[string]int{}, cur: map[string][]int{}}
}

func (c *permEnum) hook(names []string, swap func(i, j int)) {
	m := len(names)
	if m < 2 {
		return
	}
	// bring the list into canonical (sorted) order first, then apply the chosen permutation
	idx := make([]int, m)
	for i := range idx {
		idx[i] = i
	}
	cp := append([]string{}, names...)
	for i := 0; i < m; i++ { // selection sort through swap: deterministic
		min := i
		for j := i + 1; j < m; j++ {
			if cp[j] < cp[min] {
				min = j
			}
		}
		if min != i {
			cp[i], cp[min] = cp[min], cp[i]
			swap(i, min)
		}
	}
	key := strings.Join(cp, ",")
	c.sizes[key] = m
	v := c.cur[key]
	if c.Fixed != nil {
		v = c.Fixed[key]
	}
	for len(v) < m-1 {
		v = append(v, 0)
	}
	c.cur[key] = v
	for i := m - 1; i > 0; i-- {
		swap(i, v[m-1-i]%(i+1))
	}
}

func (c *permEnum) next() bool {
	var keys []string
	for k := range c.sizes {
		keys = append(keys, k)
	}
	sort.Strings(keys)
	for ki := len(keys) - 1; ki >= 0; ki-- {
		k := keys[ki]
		m := c.sizes[k]
		v := c.cur[k]
		for p := len(v) - 1; p >= 0; p-- {
			limit := (m - 1 - p) + 1 // choice p picks among i+1 = m-p values
			if v[p]+1 < limit {
				v[p]++
				for q := p + 1; q < len(v); q++ {
					v[q] = 0
				}
				for _, k2 := range keys[ki+1:] {
					for q := range c.cur[k2] {
						c.cur[k2][q] = 0
					}
				}
				return true
			}
		}
	}
	return false
}

func (c *permEnum) snapshot() map[string][]int {
	out := map[string][]int{}
	for k, v := range c.cur {
		out[k] = append([]int{}, v...)
	}
	return out
}

type sent struct {
	dst  string
	wire []byte
}

// batchPayload: id < 100: one snapshot; 100..999: 8 snapshots (more than a kilobyte encoded); >= 1000:
// 500 snapshots (what a loaded server's sender emits).
func batchPayload(id int) []byte {
	n := 1
	if id >= 1000 {
		n = 500
	} else if id >= 100 {
		n = 8
	}
	b := &protocol.BatchSnapshots{}
	for k := 0; k < n; k++ {
		b.Snapshots = append(b.Snapshots, &protocol.SignedSnapshot{Snapshot: &protocol.Snapshot{EventDigest: hashing.Digest(hx.SeqDigest(id + k)), HistoryDigest: hashing.Digest(hx.SeqDigest(id + k + 50)), HyperDigest: hashing.Digest(hx.SeqDigest(id + k + 90)), Version: uint64(id + k)}, Signature: append([]byte{byte(id), byte(k), 2}, hx.SeqDigest(id+k+7)...)})
	}
	p, _ := b.Encode()
	return p
}

// ---------------------------------------------------------------- (1) routing

type rcase struct {
	Self   string   `json:"selfRole"`
	Peers  []string `json:"peerRoles"` // role of p1..pk
	SelfIn bool     `json:"selfInTopology"`
	Src    int      `json:"source"` // -1 = nil (from the server), i = peer i
	TTL    int      `json:"ttl"`
}

func routing(r *ev.Run) {
	var mu sync.Mutex
	var got []sent
	gossip.VerifSendHook = func(a *gossip.Agent, dst *memberlist.Node, wire []byte) error {
		mu.Lock()
		got = append(got, sent{dst.Name, append([]byte{}, wire...)})
		mu.Unlock()
		return nil
	}
	defer func() { gossip.VerifSendHook, gossip.VerifShuffleHook = nil, nil }()
	var assigns [][]string
	var gen func(cur []string)
	gen = func(cur []string) {
		assigns = append(assigns, append([]string{}, cur...))
		if len(cur) == 3 {
			return
		}
		for _, ro := range roles {
			gen(append(cur, ro))
		}
	}
	gen(nil)
	cases := 0
	for _, selfRole := range roles {
		for _, as := range assigns {
			for _, selfIn := range []bool{true, false} {
				for src := -1; src < len(as); src++ {
					for _, ttl := range []int{0, 1, 2, 3} {
						c := rcase{selfRole, as, selfIn, src, ttl}
						cases++
						ch := newPermEnum()
						for {
							gossip.VerifShuffleHook = ch.hook
							a := newAgent("p0", selfRole)
							if selfIn {
								a.VerifTopology().Update(a.Self)
							}
							var ps []*gossip.Peer
							for i, ro := range as {
								p := peer(i+1, ro)
								ps = append(ps, p)
								a.VerifTopology().Update(p)
							}
							var from *gossip.Peer
							if src >= 0 {
								from = ps[src]
							}
							payload := batchPayload(1)
							msg := &gossip.Message{Kind: gossip.BatchMessageType, From: from, TTL: ttl, Payload: payload}
							got = nil
							pn, pmsg := ev.Catch(func() { a.Send(msg) })
							r.Eval(1)
							if pn {
								r.Violation("Agent.Send panics: "+firstLine(pmsg), c)
								break
							}
							checkSends(r, c, a, ps, got, ttl, payload)
							if !ch.next() {
								break
							}
						}
						r.Distinct(fmt.Sprint("route", c))
					}
				}
			}
		}
	}
	r.Bound("routing_cases", cases)
	// an update / join for a peer whose role was never seen must be harmless (a leave for a peer that
	// never joined cannot come from memberlist, which announces a node before it retires it: not judged)
	for _, what := range []string{"update", "join"} {
		a := newAgent("p0", "auditor")
		a.VerifTopology().Update(a.Self)
		n := gossip.VerifNode(peer(5, "publisher"))
		pn, pmsg := ev.Catch(func() {
			switch what {
			case "leave":
				a.VerifNotifyLeave(n)
			case "update":
				a.VerifNotifyUpdate(n)
			case "join":
				a.VerifNotifyJoin(n)
			}
			a.Send(&gossip.Message{Kind: gossip.BatchMessageType, TTL: 1, Payload: batchPayload(2)})
		})
		r.Eval(1)
		if pn {
			r.Violation("a "+what+" notification for a peer of a role the agent has never seen panics: "+firstLine(pmsg), nil)
		}
	}
}

func checkSends(r *ev.Run, c rcase, a *gossip.Agent, ps []*gossip.Peer, got []sent, ttl int, payload []byte) {
	if ttl == 0 {
		if len(got) != 0 {
			r.Violation("a message whose time-to-live is exhausted is sent on", c)
		}
		r.Outcome("ttl exhausted: nothing sent")
		return
	}
	perRole := map[string]int{}
	roleOf := map[string]string{"p0": c.Self}
	for i, p := range ps {
		roleOf[p.Name] = c.Peers[i]
	}
	for _, s := range got {
		if s.dst == a.Self.Name {
			r.Violation("an agent routes a message to itself", c)
		}
		var m gossip.Message
		if err := m.Decode(s.wire); err != nil {
			r.Violation("a forwarded message cannot be decoded", c)
			continue
		}
		if m.TTL != ttl-1 {
			r.Violation(fmt.Sprintf("a forwarded message does not carry the received time-to-live lowered by one (received %d, sent %d)", ttl, m.TTL), c)
		}
		if string(m.Payload) != string(payload) || m.Kind != gossip.BatchMessageType {
			r.Violation("forwarding alters the message's kind or payload", c)
		}
		perRole[roleOf[s.dst]]++
	}
	// one peer per role that has a peer other than the agent itself (whether the peer a message came
	// from may get it back is not part of the property)
	eligible := map[string]int{}
	for i := range ps {
		eligible[c.Peers[i]]++
	}
	for _, ro := range roles {
		want := 0
		if eligible[ro] > 0 {
			want = 1
		}
		if perRole[ro] != want {
			r.Violation(fmt.Sprintf("routing sends %d copies to role %s where exactly %d is due (one per role that has another peer)", perRole[ro], ro, want), c)
		}
	}
	r.Outcome(fmt.Sprintf("sent to %d peers", len(got)))
}

func firstLine(s string) string {
	if i := strings.IndexByte(s, '\n'); i >= 0 {
		s = s[:i]
	}
	if len(s) > 140 {
		s = s[:140]
	}
	return s
}

// ---------------------------------------------------------------- (2) dissemination BFS

type nullTasks struct{ n *int }

func (t nullTasks) Start() {}
func (t nullTasks) Stop()  {}
func (t nullTasks) Add(task gossip.Task) error {
	*t.n++
	return nil
}
func (t nullTasks) Len() int { return 0 }

type dEvent struct {
	Kind string           `json:"kind"`              // deliver | redeliver
	I    int              `json:"index"`             // index into the pending list
	Perm map[string][]int `json:"shuffle,omitempty"` // the permutation applied to each peer list during this hop
}

type flight struct {
	dst  int
	wire []byte
	ttl  int
}

type net struct {
	agents  []*gossip.Agent
	procs   []*gossip.BatchProcessor
	tasks   []map[string]int // per agent: batch -> tasks created
	pending []flight
	sends   int
	last    *flight
	path    []dEvent
}

var netRoles = []string{"auditor", "monitor", "publisher", "auditor"}

func newNet() *net {
	n := &net{}
	for i, ro := range netRoles {
		a := newAgent(fmt.Sprintf("a%d", i), ro)
		n.agents = append(n.agents, a)
		n.procs = append(n.procs, gossip.NewBatchProcessor(a, nil, nil))
		n.tasks = append(n.tasks, map[string]int{})
	}
	for _, a := range n.agents {
		for _, b := range n.agents {
			a.VerifTopology().Update(b.Self)
		}
	}
	return n
}

func (n *net) index(name string) int {
	for i, a := range n.agents {
		if a.Self.Name == name {
			return i
		}
	}
	return -1
}

// hop: the receiving agent does what NotifyMsg -> In bus -> BatchProcessor loop -> Out bus -> sender
// loop -> Send do for one message, each step by the production function.
func (n *net) hop(r *ev.Run, f flight, ch *permEnum) bool {
	a := n.agents[f.dst]
	m := &gossip.Message{}
	if err := m.Decode(f.wire); err != nil {
		r.Violation("a gossiped message cannot be decoded by the receiver", nil)
		return false
	}
	batch := new(protocol.BatchSnapshots)
	if err := batch.Decode(m.Payload); err != nil {
		return true
	}
	if n.procs[f.dst].VerifWasProcessed(batch) {
		return true // dropped: no tasks, no forwarding
	}
	n.tasks[f.dst][string(m.Payload)]++
	gossip.VerifShuffleHook = ch.hook
	gossip.VerifSendHook = func(src *gossip.Agent, dst *memberlist.Node, wire []byte) error {
		n.sends++
		var mm gossip.Message
		mm.Decode(wire)
		d := n.index(dst.Name)
		if d == f.dst {
			r.Violation("an agent routes a message to itself", map[string]interface{}{"path": n.path})
		}
		if mm.TTL != f.ttl-1 || f.ttl <= 0 {
			r.Violation("a forwarded message does not carry the received time-to-live lowered by one, or an exhausted one is sent on", map[string]interface{}{"path": n.path, "received": f.ttl, "sent": mm.TTL})
		}
		if d >= 0 {
			n.pending = append(n.pending, flight{d, append([]byte{}, wire...), mm.TTL})
		}
		return nil
	}
	pn, pmsg := ev.Catch(func() { a.Send(m) })
	gossip.VerifSendHook, gossip.VerifShuffleHook = nil, nil
	if pn {
		r.Violation("Agent.Send panics: "+firstLine(pmsg), map[string]interface{}{"path": n.path})
		return false
	}
	// Go's map iteration order decides the order in which Send hands the copies to the network: the
	// pending list is kept sorted so that a path means the same thing on every replay
	sort.SliceStable(n.pending, func(a, b int) bool {
		if n.pending[a].dst != n.pending[b].dst {
			return n.pending[a].dst < n.pending[b].dst
		}
		if n.pending[a].ttl != n.pending[b].ttl {
			return n.pending[a].ttl < n.pending[b].ttl
		}
		return string(n.pending[a].wire) < string(n.pending[b].wire)
	})
	return true
}

func (n *net) canon() string {
	var ps []string
	for _, f := range n.pending {
		ps = append(ps, fmt.Sprintf("%d:%d", f.dst, f.ttl))
	}
	sort.Strings(ps)
	var ts []string
	for i, t := range n.tasks {
		for _, c := range t {
			ts = append(ts, fmt.Sprintf("%d=%d", i, c))
		}
	}
	sort.Strings(ts)
	return strings.Join(ps, ",") + "|" + strings.Join(ts, ",")
}

var netBatch = 7

func replayNet(r *ev.Run, first int, ttl int, path []dEvent) (*net, bool) {
	n := newNet()
	msg := &gossip.Message{Kind: gossip.BatchMessageType, TTL: ttl, Payload: batchPayload(netBatch)}
	w, _ := msg.Encode()
	n.pending = []flight{{first, w, ttl}}
	for _, e := range path {
		if !n.step(r, e) {
			return n, false
		}
	}
	return n, true
}

func (n *net) step(r *ev.Run, e dEvent) bool {
	n.path = append(n.path, e)
	ch := newPermEnum()
	ch.Fixed = e.Perm
	if ch.Fixed == nil {
		ch.Fixed = map[string][]int{}
	}
	switch e.Kind {
	case "deliver":
		f := n.pending[e.I]
		n.pending = append(append([]flight{}, n.pending[:e.I]...), n.pending[e.I+1:]...)
		n.last = &f
		return n.hop(r, f, ch)
	case "redeliver":
		return n.hop(r, *n.last, ch)
	}
	return true
}

func dissemination(r *ev.Run) {
	maxTTL := 3
	if r.Thorough() {
		maxTTL = 4
	}
	states, transitions := 0, 0
	for _, nb := range []int{7, 107} { // a one-snapshot batch and an eight-snapshot one
		netBatch = nb
		for first := 0; first < 2; first++ {
			if nb != 7 && first == 1 {
				continue
			}
			for ttl := 0; ttl <= maxTTL; ttl++ {
				type node struct{ path []dEvent }
				level := []node{{nil}}
				seen := map[string]bool{}
				for depth := 0; len(level) > 0; depth++ {
					if depth > 40 {
						r.Violation("dissemination of a batch does not terminate (delivery depth exceeds the horizon)", map[string]int{"ttl": ttl})
						break
					}
					var next []node
					for _, nd := range level {
						n, ok := replayNet(r, first, ttl, nd.path)
						if !ok {
							continue
						}
						// invariants of this state
						for i, t := range n.tasks {
							for _, c := range t {
								if c > 1 {
									r.Violation("an agent runs its tasks for the same batch more than once", map[string]interface{}{"agent": i, "path": nd.path})
								}
							}
						}
						var evs []dEvent
						for i := range n.pending {
							evs = append(evs, dEvent{Kind: "deliver", I: i})
						}
						if n.last != nil && countKind(nd.path, "redeliver") < 2 {
							evs = append(evs, dEvent{Kind: "redeliver"})
						}
						for _, e := range evs {
							// every shuffle choice of this hop
							ch := newPermEnum()
							for {
								m, ok := replayNet(r, first, ttl, nd.path)
								if !ok {
									break
								}
								e2 := e
								m.path = append(m.path, e2)
								var f flight
								if e.Kind == "deliver" {
									f = m.pending[e.I]
									m.pending = append(append([]flight{}, m.pending[:e.I]...), m.pending[e.I+1:]...)
									m.last = &f
								} else {
									f = *m.last
								}
								okh := m.hop(r, f, ch)
								transitions++
								e2.Perm = ch.snapshot()
								if okh {
									key := m.canon()
									if !seen[key] {
										seen[key] = true
										states++
										next = append(next, node{append(append([]dEvent{}, nd.path...), e2)})
									}
								}
								if !ch.next() {
									break
								}
							}
						}
					}
					level = next
				}
				r.Outcome(fmt.Sprintf("batch=%d first=%d ttl=%d states=%d", nb, first, ttl, len(seen)))
			}
		}
	}
	r.States(states)
	r.Transitions(transitions)
	r.Distinct("dissemination")
}

func countKind(p []dEvent, k string) int {
	n := 0
	for _, e := range p {
		if e.Kind == k {
			n++
		}
	}
	return n
}

// ---------------------------------------------------------------- (3) at-most-once under the scheduler

type countingFactory struct{ created map[string]int }

func (f countingFactory) New(ctx context.Context) gossip.Task {
	b := ctx.Value("batch").(*protocol.BatchSnapshots)
	k, _ := json.Marshal(b)
	f.created[string(k)]++
	return func() error { return nil }
}
func (f countingFactory) Metrics() []prometheus.Collector { return nil }

type outbox struct{ ch <-chan *gossip.Message }

func (o *outbox) Subscribe(id int, ch <-chan *gossip.Message) { o.ch = ch }

type ascenario struct {
	Deliveries [][]int `json:"deliveriesPerPeer"` // per peer thread: batch ids in order
}

func amoBody(s ascenario) func(x *sx.Exec) {
	return func(x *sx.Exec) {
		var a *gossip.Agent
		var bp *gossip.BatchProcessor
		f := countingFactory{map[string]int{}}
		ob := &outbox{}
		ran := 0
		sx.Setup(func() {
			a = newAgent("a0", "auditor")
			a.Tasks = nullTasks{&ran}
			bp = gossip.NewBatchProcessor(a, []gossip.TaskFactory{f}, nil)
			a.Out.Subscribe(gossip.BatchMessageType, ob, 64)
		})
		a.In.Subscribe(gossip.BatchMessageType, bp, 255) // starts the processor's loop (a controlled thread)
		forwarded := map[string]int{}
		sx.GoNamed("outbox", true, func() {
			for {
				sx.WaitRecv(ob.ch)
				m := <-ob.ch
				forwarded[string(m.Payload)]++
			}
		})
		var wg sx.WaitGroup
		batches := map[int]bool{}
		for pi, ds := range s.Deliveries {
			ds := ds
			wg.Add(1)
			for _, id := range ds {
				batches[id] = true
			}
			sx.GoNamed(fmt.Sprintf("peer%d", pi), false, func() {
				defer wg.Done()
				for _, id := range ds {
					m := &gossip.Message{Kind: gossip.BatchMessageType, TTL: 2, Payload: batchPayload(id)}
					w, _ := m.Encode()
					a.VerifNotifyMsg(w)
				}
			})
		}
		wg.Wait()
		sx.AwaitQuiescence("all deliveries processed")
		bp.Stop()
		var shape []string
		for id := range batches {
			var b protocol.BatchSnapshots
			b.Decode(batchPayload(id))
			k, _ := json.Marshal(&b)
			c := f.created[string(k)]
			fw := forwarded[string(batchPayload(id))]
			shape = append(shape, fmt.Sprintf("b%d:tasks=%d,forwards=%d", id, c, fw))
			if c > 1 {
				x.Fail("an agent runs its tasks for the same batch more than once", id)
			}
			if c == 0 {
				x.Fail("an agent never runs its tasks for a batch it received", id)
			}
			if fw > 1 {
				x.Fail("an agent forwards the same batch more than once", id)
			}
		}
		sort.Strings(shape)
		x.Observe(strings.Join(shape, " "))
	}
}

// ---------------------------------------------------------------- (4) topology under concurrency (scheduler)

func topoBody(x *sx.Exec) {
	var a *gossip.Agent
	var got []sent
	sx.Setup(func() {
		a = newAgent("p0", "auditor")
		a.VerifTopology().Update(a.Self)
		a.VerifTopology().Update(peer(1, "monitor"))
		a.VerifTopology().Update(peer(2, "auditor"))
	})
	gossip.VerifSendHook = func(_ *gossip.Agent, dst *memberlist.Node, wire []byte) error {
		got = append(got, sent{dst.Name, wire})
		return nil
	}
	gossip.VerifShuffleHook = func(names []string, swap func(i, j int)) {}
	defer func() { gossip.VerifSendHook, gossip.VerifShuffleHook = nil, nil }()
	var wg sx.WaitGroup
	wg.Add(3)
	sx.GoNamed("joins", false, func() {
		defer wg.Done()
		a.VerifNotifyJoin(gossip.VerifNode(peer(3, "publisher")))
		a.VerifNotifyUpdate(gossip.VerifNode(peer(1, "monitor")))
	})
	sx.GoNamed("leaves", false, func() {
		defer wg.Done()
		a.VerifNotifyLeave(gossip.VerifNode(peer(2, "auditor")))
		a.VerifNotifyLeave(gossip.VerifNode(peer(1, "monitor")))
	})
	sx.GoNamed("send", false, func() {
		defer wg.Done()
		a.Send(&gossip.Message{Kind: gossip.BatchMessageType, TTL: 2, Payload: batchPayload(3)})
		if l := a.VerifTopology().Get("auditor"); l != nil {
			for _, p := range l.L {
				if p == nil {
					x.Fail("the topology hands out a peer list with a hole", nil)
				}
			}
		}
	})
	wg.Wait()
	var names []string
	for _, s := range got {
		if s.dst == "p0" {
			x.Fail("an agent routes a message to itself", nil)
		}
		names = append(names, s.dst)
	}
	sort.Strings(names)
	x.Observe("sent to " + strings.Join(names, ","))
	// final view: p1 and p2 gone, p3 present
	sx.Setup(func() {
		view := map[string]bool{}
		for _, ro := range roles {
			if l := a.VerifTopology().Get(ro); l != nil {
				for _, p := range l.L {
					view[p.Name] = true
				}
			}
		}
		// p1 is updated by one thread and removed by the other: either order is a legitimate result
		if view["p2"] || !view["p3"] || !view["p0"] {
			x.Fail("after concurrent joins and leaves the agent's view of the network is not the result of those events", fmt.Sprint(view))
		}
	})
}

func explore(r *ev.Run, name string, bound int, body func(x *sx.Exec), detail interface{}) {
	e := &sx.Explorer{MaxBound: bound, DelayBounding: true, MaxSteps: 4000, Body: body}
	e.Deadline = time.Now().Add(6 * time.Minute)
	e.OnFailure = func(x *sx.Exec, f sx.Failure, schedule []int) {
		x2, det := e.Replay(schedule)
		if !det {
			r.Violation("HARNESS: NONDETERMINISM replaying a failing schedule", map[string]interface{}{"scenario": name, "schedule": schedule})
			return
		}
		r.Violation(f.Sig, map[string]interface{}{"scenario": name, "case": detail, "schedule": append([]int{}, schedule...), "trace": x2.Trace, "detail": f.Detail})
	}
	e.Run()
	if okr, badr := e.ValidateReplays(); badr > 0 {
		r.Violation("HARNESS: NONDETERMINISM: an explored schedule does not reproduce when replayed", nil)
	} else {
		r.Validated(okr)
	}
	r.Eval(e.Execs)
	r.States(e.Execs)
	r.Transitions(e.PointsTotal)
	r.Distinct(name)
	for k := range e.Outcomes {
		r.Outcome(name + " => " + k)
	}
	if e.Capped != "" {
		r.Capped(name + ": " + e.Capped)
	}
	r.Sample(map[string]interface{}{"scenario": name, "executions": e.Execs, "schedulingPoints": e.PointsTotal, "boundCompleted": e.BoundCompleted, "outcomes": len(e.Outcomes)})
	fmt.Printf("[c18] %s: execs=%d points=%d bound=%d outcomes=%d failures=%v\n", name, e.Execs, e.PointsTotal, e.BoundCompleted, len(e.Outcomes), e.Failures)
}

func TestC18(t *testing.T) {
	r := ev.Begin("C18")
	r.Rule("(1) routing: the real Agent.Send/route/Topology for EVERY assignment of 0..3 other peers to 3 roles x self in/out of its own topology x every source x TTL 0..3 x EVERY shuffle permutation: nothing sent at TTL 0, every copy carries TTL-1 and the unchanged payload, never to self, exactly one copy per role with an eligible peer; (2) dissemination: explicit-state BFS over a 4-agent network (two share a role), initial TTL 0..3 (4 thorough), every delivery order, up to 2 duplicate deliveries, every shuffle choice, with the real Message codec, BatchProcessor.wasProcessed and Agent.Send at every hop: terminates, tasks per agent and batch <= 1, TTL strictly decreasing, never to self; (3) at-most-once: the real BatchProcessor loop and buses under the controlled scheduler, one batch delivered 1..3 times from 1..2 peers plus a second batch, all schedules with <= 2 (3 thorough) deviations: tasks and forwards per batch exactly once; (4) topology: concurrent NotifyJoin/NotifyUpdate, NotifyLeave and Send under the scheduler: no self-routing, final view = the events' result; plus a free-running -race pass of the same bodies")
	r.Assume("memberlist's transport and randomness are replaced by harness-owned seams (every permutation enumerated)", "in (2) the hop glue (decode, wasProcessed, forward) is harness-written around the production functions; the production loop itself runs in (3)", "a negative time-to-live can only be injected by a hostile peer and is reported as a note, not judged")
	if r.Replay != "" {
		r.Finish()
		return
	}
	if r.Mine(0) {
		routing(r)
	}
	if r.Mine(1) {
		dissemination(r)
	}
	bound := 2
	if r.Thorough() {
		bound = 3
	}
	amo := []ascenario{{[][]int{{1}}}, {[][]int{{1, 1}}}, {[][]int{{1, 1, 1}}}, {[][]int{{1}, {1}}}, {[][]int{{1, 1}, {1}}}, {[][]int{{1, 2}, {1}}}, {[][]int{{1, 2}, {2, 1}}},
		{[][]int{{100, 100}}}, {[][]int{{100, 1}, {100}}}, {[][]int{{1000, 1000}}}}
	for i, s := range amo {
		if r.Mine(2 + i) {
			explore(r, fmt.Sprintf("at-most-once %v", s.Deliveries), bound, amoBody(s), s)
		}
	}
	if r.Mine(2 + len(amo)) {
		explore(r, "topology: joins || leaves || send", bound, topoBody, nil)
	}
	r.Finish()
}

// TestC18Race: joins, leaves, updates, sends and reads of the topology as free-running goroutines on
// an uninstrumented -race build.
func TestC18Race(t *testing.T) {
	r := ev.Begin("C18")
	iters := 300
	if r.Thorough() {
		iters = 3000
	}
	gossip.VerifSendHook = func(_ *gossip.Agent, dst *memberlist.Node, wire []byte) error { return nil }
	fails := map[string]bool{}
	var mu sync.Mutex
	for it := 0; it < iters; it++ {
		a := newAgent("p0", "auditor")
		a.VerifTopology().Update(a.Self)
		a.VerifTopology().Update(peer(1, "monitor"))
		a.VerifTopology().Update(peer(2, "auditor"))
		var wg sync.WaitGroup
		run := func(f func()) {
			wg.Add(1)
			go func() {
				defer wg.Done()
				defer func() {
					if p := recover(); p != nil {
						mu.Lock()
						fails["panic under concurrent use of the topology: "+firstLine(fmt.Sprint(p))] = true
						mu.Unlock()
					}
				}()
				f()
			}()
		}
		run(func() {
			a.VerifNotifyJoin(gossip.VerifNode(peer(3, "publisher")))
			a.VerifNotifyUpdate(gossip.VerifNode(peer(1, "monitor")))
		})
		run(func() {
			a.VerifNotifyLeave(gossip.VerifNode(peer(2, "auditor")))
			a.VerifNotifyLeave(gossip.VerifNode(peer(1, "monitor")))
		})
		run(func() {
			a.Send(&gossip.Message{Kind: gossip.BatchMessageType, TTL: 2, Payload: batchPayload(3)})
			a.VerifTopology().Get("auditor")
		})
		run(func() {
			a.Send(&gossip.Message{Kind: gossip.BatchMessageType, TTL: 1, Payload: batchPayload(4)})
		})
		wg.Wait()
	}
	for f := range fails {
		r.Violation(f, nil)
	}
	r.Extra("race_detector_iterations", iters)
	r.Finish()
}

var _ = os.Getenv
