//go:build verif

// Package c05: explicit-state breadth-first search over replicated-state-machine events on a cluster
// of bare RaftNodes (package fx). Decides C05 (versions dense, in order, exactly once) and C06
// (replicas agree; any replica's proofs verify against the leader's snapshots).
package c05

import (
	"crypto/sha256"
	"encoding/json"
	"fmt"
	"io"
	"os"
	"path/filepath"
	"runtime"
	"strings"
	"testing"

	"github.com/bbva/qed/balloon/hyper"
	"github.com/bbva/qed/consensus"
	"github.com/bbva/qed/protocol"
	"github.com/bbva/qed/storage"
	"github.com/bbva/qed/storage/bplus"
	"github.com/bbva/qed/verifx/cx"
	"github.com/bbva/qed/verifx/ev"
	"github.com/bbva/qed/verifx/fx"
	"github.com/bbva/qed/verifx/nx"
	"github.com/bbva/qed/verifx/sx"
	"github.com/hashicorp/raft"
)

// ---------------------------------------------------------------- real clusters
//
// EVERY scenario over add(1), add(2), stop(a follower), start(it again), raft snapshot on the leader,
// leadership transfer up to a depth runs on a REAL 3-node cluster (real raft, real transport, RocksDB)
// in a child process. At the end every replica must have caught up and be in the same state, and every
// proof every replica serves must verify against the snapshots the leader acknowledged.

func clusterScenarios(depth int, trailing []uint64, bulks bool) []cx.Scenario {
	var out []cx.Scenario
	var gen func(cur []cx.Event, adds int, down bool, stops, snaps, transfers int)
	// disaster recovery of one server: add.. backup add.. rebuild add (a follower's store restored from the
	// leader's backup, empty raft directory, joining again)
	for _, pre := range [][]int{{1}, {2, 1}} {
		for _, mid := range [][]int{{}, {1}} {
			var evs []cx.Event
			for _, k := range pre {
				evs = append(evs, cx.Event{Kind: "add", K: k})
			}
			evs = append(evs, cx.Event{Kind: "backup"})
			for _, k := range mid {
				evs = append(evs, cx.Event{Kind: "add", K: k})
			}
			evs = append(evs, cx.Event{Kind: "rebuild"}, cx.Event{Kind: "add", K: 1})
			out = append(out, cx.Scenario{Events: evs, TrailingLogs: 10240})
			if len(mid) > 0 {
				out = append(out, cx.Scenario{Events: append(append([]cx.Event{}, evs...), cx.Event{Kind: "transfer"}, cx.Event{Kind: "add", K: 1}), TrailingLogs: 10240})
			}
		}
	}
	// the seed node (started with the bootstrap flag) is restarted, as leader and after it handed leadership over
	add1, add2 := cx.Event{Kind: "add", K: 1}, cx.Event{Kind: "add", K: 2}
	for _, evs := range [][]cx.Event{
		{add1, {Kind: "bounce0"}, add1},
		{add2, {Kind: "transfer"}, add1, {Kind: "bounce0"}, add1},
		{add1, {Kind: "snapshot"}, add2, {Kind: "bounce0"}, add1, {Kind: "transfer"}, add1},
	} {
		out = append(out, cx.Scenario{Events: evs, TrailingLogs: 10240})
	}
	gen = func(cur []cx.Event, adds int, down bool, stops, snaps, transfers int) {
		if len(cur) > 0 && adds > 0 && (stops > 0 || snaps > 0 || transfers > 0) {
			for _, t := range trailing {
				if t == 0 && snaps == 0 {
					continue // without a snapshot the compaction setting makes no difference
				}
				out = append(out, cx.Scenario{Events: append([]cx.Event{}, cur...), TrailingLogs: t})
			}
		}
		if len(cur) == depth {
			return
		}
		if adds < 3 {
			gen(append(cur, cx.Event{Kind: "add", K: 1}), adds+1, down, stops, snaps, transfers)
			if bulks {
				gen(append(cur, cx.Event{Kind: "add", K: 2}), adds+1, down, stops, snaps, transfers)
			}
		}
		if !down && stops < 1 {
			gen(append(cur, cx.Event{Kind: "stop"}), adds, true, stops+1, snaps, transfers)
		}
		if down {
			gen(append(cur, cx.Event{Kind: "start"}), adds, false, stops, snaps, transfers)
		}
		if snaps < 1 && adds > 0 {
			gen(append(cur, cx.Event{Kind: "snapshot"}), adds, down, stops, snaps+1, transfers)
		}
		if transfers < 1 && !down && adds > 0 {
			gen(append(cur, cx.Event{Kind: "transfer"}), adds, down, stops, snaps, transfers+1)
		}
	}
	gen(nil, 0, false, 0, 0, 0)
	return out
}

func realClusters(r *ev.Run, depth int) {
	scs := clusterScenarios(depth, []uint64{10240, 0}, r.Thorough())
	r.Bound("real_cluster_scenarios", len(scs))
	base := os.Getenv("VERIF_SCRATCH_DIR")
	ev.ParallelFor(len(scs), 8, func(i int) {
		if !r.Mine(i) {
			return
		}
		if r.OutOfTime() {
			r.Capped("time budget reached during the real-cluster scenarios")
			return
		}
		sc := scs[i]
		det := map[string]interface{}{"scenario": cx.PathString(sc.Events), "trailingLogs": sc.TrailingLogs, "events": sc.Events}
		res, bad := cx.Run(filepath.Join(base, fmt.Sprintf("cl%d", i)), sc)
		r.Eval(1)
		if strings.HasPrefix(bad, "the cluster process died") {
			// a failure is believed only if it reproduces: the same scenario runs once more (2 of ~3 700
			// scenarios of a thorough run died once and passed on every repetition; the stderr tail of
			// such a run is kept in the evidence for whoever wants to chase it)
			r.Extra("real_cluster_child_died_once", 1)
			r.Outcome("real cluster child died once: " + cx.PathString(sc.Events) + " :: " + bad)
			res, bad = cx.Run(filepath.Join(base, fmt.Sprintf("cl%d-retry", i)), sc)
		}
		slow := bad == "the cluster process hangs"
		if res != nil {
			for _, p := range res.Problems {
				if strings.Contains(p, "does not catch up") {
					slow = true
				}
			}
		}
		if slow {
			// waiting is the only wall-clock oracle here: before it is believed the scenario runs once
			// more with four times the patience (an overloaded machine is not a defect of QED)
			r.Extra("real_cluster_second_runs", 1)
			res, bad = cx.RunPatient(filepath.Join(base, fmt.Sprintf("cl%d-again", i)), sc, true)
		}
		if bad != "" {
			r.Violation("[C06] real cluster: "+bad, det)
			return
		}
		if res.Error != "" {
			// the scenario could not be driven (e.g. no leader in time on a loaded machine): not a verdict
			r.Outcome("real cluster undriven: " + res.Error)
			r.Extra("real_cluster_undriven", 1)
			return
		}
		seen := map[string]bool{}
		for _, p := range res.Problems {
			if !seen[p] {
				seen[p] = true
				r.Violation("[C06] real cluster: "+p, det)
			}
		}
		var ref *cx.NodeResult
		for k := range res.Nodes {
			n := &res.Nodes[k]
			if !n.Up {
				continue
			}
			if ref == nil {
				ref = n
				continue
			}
			if n.Version != ref.Version || n.FsmIndex != ref.FsmIndex {
				r.Violation("[C06] real cluster: replicas that applied the same log report different versions", det)
			} else if n.Tables != ref.Tables {
				r.Violation("[C06] real cluster: replicas that applied the same log hold different stored trees", det)
			}
		}
		if ref != nil && int(ref.Version) != res.Events {
			r.Violation("[C05] real cluster: the current version is not the number of acknowledged events", det)
		}
		r.Validated(1)
		r.Outcome("real cluster ok: " + cx.PathString(sc.Events))
	})
}

func TestMain(m *testing.M) {
	if nx.ChildMain() || cx.ChildMain() {
		return
	}
	os.Exit(m.Run())
}

// ---------------------------------------------------------------- conformance of the environment model
//
// The BFS replaces hashicorp/raft by its contract to the FSM. Here that contract is checked against
// the real thing where a single node can show it: EVERY trace over propose(1), propose(2), restart and
// snapshot (log compaction) up to a depth is run both on the model (one bare replica) and on a REAL
// server process (real raft, real start-up Restore and log replay, real snapshot store); acknowledged
// snapshots, version and the three tree tables must be identical after every trace.

func evName(i int) []byte { return []byte(fmt.Sprintf("conformance-event-%d", i)) }

func confTraces(depth int) [][]fx.Event {
	var out [][]fx.Event
	var gen func(cur []fx.Event, proposes, restarts, snaps int)
	gen = func(cur []fx.Event, proposes, restarts, snaps int) {
		if len(cur) > 0 {
			out = append(out, append([]fx.Event{}, cur...))
		}
		if len(cur) == depth {
			return
		}
		if proposes < 3 {
			gen(append(cur, fx.Event{Kind: "propose", K: 1}), proposes+1, restarts, snaps)
			gen(append(cur, fx.Event{Kind: "propose", K: 2}), proposes+1, restarts, snaps)
		}
		if restarts < 2 && len(cur) > 0 {
			gen(append(cur, fx.Event{Kind: "restart", R: 0}), proposes, restarts+1, snaps)
		}
		if snaps < 1 && proposes > 0 && cur[len(cur)-1].Kind != "snapshot" {
			gen(append(cur, fx.Event{Kind: "snapshot", R: 0}), proposes, restarts, snaps+1)
		}
	}
	gen(nil, 0, 0, 0)
	return out
}

func conformance(r *ev.Run, depth int) {
	traces := confTraces(depth)
	r.Bound("conformance_traces", len(traces))
	base := os.Getenv("VERIF_SCRATCH_DIR")
	fx.DigestFn = func(i int) []byte { h := sha256.Sum256(evName(i)); return h[:] }
	defer func() { fx.DigestFn = nil }()
	ev.ParallelFor(len(traces), 8, func(ti int) {
		if !r.Mine(ti) {
			return
		}
		if r.OutOfTime() {
			r.Capped("time budget reached during the conformance traces")
			return
		}
		tr := traces[ti]
		// model
		c, err := fx.NewCluster(r, 1, 1)
		if err != nil {
			panic(err)
		}
		defer c.Destroy()
		// real server
		db, rf := filepath.Join(base, fmt.Sprintf("conf%d-db", ti)), filepath.Join(base, fmt.Sprintf("conf%d-raft", ti))
		defer os.RemoveAll(db)
		defer os.RemoveAll(rf)
		n, err := nx.Start(db, rf, "VERIF_TRAILING0=1")
		if err != nil {
			r.Violation("HARNESS-MISMATCH: a real server does not start: "+err.Error(), nil)
			return
		}
		defer func() { n.Kill() }()
		mism := func(what string, step int) {
			r.Violation("HARNESS-MISMATCH: the environment model and a real raft node disagree on "+what, map[string]interface{}{"trace": fx.PathString(tr), "step": step})
		}
		events := 0
		for si, e := range tr {
			if !c.Step(e) {
				mism("whether the step is possible", si)
				return
			}
			switch e.Kind {
			case "propose":
				var body []byte
				path := "/events"
				if e.K == 1 {
					body, _ = json.Marshal(protocol.Event{Event: evName(events)})
				} else {
					var evs [][]byte
					for j := 0; j < e.K; j++ {
						evs = append(evs, evName(events+j))
					}
					body, _ = json.Marshal(protocol.EventsBulk{Events: evs})
					path = "/events/bulk"
				}
				res, err := n.HTTP("api", "POST", path, body)
				if err != nil || res.Status != 201 {
					mism("an insertion (the real server refuses it)", si)
					return
				}
				var got []*protocol.Snapshot
				if e.K == 1 {
					var s protocol.Snapshot
					json.Unmarshal(res.Body, &s)
					got = []*protocol.Snapshot{&s}
				} else {
					json.Unmarshal(res.Body, &got)
				}
				for j, s := range got {
					a := protocol.Snapshot(*c.Acked[events+j])
					if fmt.Sprint(a) != fmt.Sprint(*s) {
						mism("the snapshot acknowledged for an insertion", si)
						return
					}
				}
				events += e.K
			case "restart":
				if _, code, _ := n.Close(); code != 0 {
					mism("a clean stop (the real server exits non-zero)", si)
					return
				}
				n, err = nx.Start(db, rf, "VERIF_TRAILING0=1")
				if err != nil {
					mism("a restart (the real server does not come up)", si)
					return
				}
				if b, err := n.Do(nx.Req{Op: "barrier"}); err != nil || b.Err != "" {
					mism("a restart (the real server does not finish its log replay)", si)
					return
				}
			case "snapshot":
				if res, err := n.Do(nx.Req{Op: "snapshot"}); err != nil || res.Err != "" {
					mism("a raft snapshot (the real server fails: "+res.Err+")", si)
					return
				}
			}
			st, err := n.Do(nx.Req{Op: "state"})
			if err != nil {
				mism("liveness (the real server died)", si)
				return
			}
			rep := c.R[0]
			if st.Version != rep.Node.VerifBalloon().Version() {
				mism("the version after a step", si)
				return
			}
			if st.Tables != rep.TreeTablesHash() {
				mism("the stored trees after a step", si)
				return
			}
		}
		r.Validated(1)
		r.Outcome("conformance " + strings.Join(strings.Fields(fx.PathString(tr)), " "))
	})
}

func replay(t *testing.T, r *ev.Run, replicas, maxRep int, tags map[string]bool) bool {
	if r.Replay == "" {
		return false
	}
	var rd struct {
		Detail struct {
			Events []fx.Event `json:"events"`
		} `json:"detail"`
	}
	b, err := os.ReadFile(r.Replay)
	if err != nil {
		t.Fatal(err)
	}
	json.Unmarshal(b, &rd)
	c, _ := fx.NewCluster(r, replicas, maxRep)
	c.Tags = tags
	defer c.Destroy()
	for _, e := range rd.Detail.Events {
		if !c.Step(e) {
			break
		}
		for _, rp := range c.R {
			c.CheckReplica(rp, true)
		}
	}
	r.Finish()
	return true
}

func bounds(r *ev.Run) (fx.Bounds, int, int, int) {
	if r.Thorough() {
		return fx.Bounds{MaxEntries: 4, BulkSizes: []int{1, 2, 3}, Restarts: true, Crashes: true, Transfers: true, MaxRestarts: 3}, 3, 3, 11
	}
	return fx.Bounds{MaxEntries: 3, BulkSizes: []int{1, 2, 3}, Restarts: true, Crashes: true, Transfers: true, MaxRestarts: 2}, 2, 2, 9
}

const rule = "explicit-state BFS: a state is a cluster of real RaftNode FSMs (no raft.Raft) over real RocksDB stores; transitions = propose(bulk), deliver(r), restart(r) (clean stop, reopen, start-up Restore, re-delivery of the applied entries), crashBefore(r) (apply aborted immediately before the store write, node dropped, reopen, re-delivery), transfer(r); every transition runs the real Apply/Restore/Query code; after every transition every replica is compared with a fault-free replica at the same applied index (version, FSM state, four table dumps, filled hyper-cache buckets) and every membership (e,q) and incremental (i,j) proof it serves is verified against the snapshots the leader acknowledged; states are de-duplicated on (log, per-replica applied/snapshot index, FSM state, table and cache hashes) with followers interchangeable"

var assume = []string{"environment model = hashicorp/raft's contract to its FSM (in-order delivery of committed entries, start-up Restore + re-delivery, leadership as a label); bound to the implementation by conformance traces: every trace over propose(1|2), restart, snapshot up to depth 4 (6 thorough) is run on the model AND on a real single-node server process (real raft) and acknowledged snapshots, version and tree tables must agree after every step (traces_validated_against_impl); multi-node raft behaviour (follower delivery, leadership) enters through the contract only",
	"RocksDB's atomic write batch and WAL recovery are trusted base", "de-duplication on observed state assumes a replica's future depends only on its stored tables, FSM state and hyper cache (the history LRU is read-through)"}

func TestC05(t *testing.T) {
	r := ev.Begin("C05")
	r.Rule(rule + "; C05 oracle: the k-th accepted event is acknowledged with version k-1 and its own digest, bulks get consecutive versions, version = applied events, persisted FSM state matches, a re-delivered entry is rejected and changes nothing")
	r.Assume(assume...)
	tags := map[string]bool{"C05": true}
	b, reps, maxRep, depth := bounds(r)
	if replay(t, r, reps, maxRep, tags) {
		return
	}
	if r.Mine(0) {
		concurrentClients(r)
	}
	conformance(r, confDepth(r))
	fx.BFS(r, reps, maxRep, b, depth, tags, runtime.NumCPU())
	r.Finish()
}

// ---------------------------------------------------------------- concurrent clients (controlled scheduler)
//
// Two clients call the real RaftNode.AddBulk / Add on one node at the same time. raft is replaced by what
// it guarantees here: proposals are applied one at a time (a lock around the real Apply); the lock is a
// scheduling point of the controlled scheduler, and ALL interleavings with <= 2 preemptions run. A bulk
// must get consecutive versions in request order whatever the other client does.

type mstore struct{ *bplus.BPlusTreeStore }

func (mstore) FetchSnapshot(w io.WriteCloser, a, b uint64, v storage.ValidateF) error { return nil }
func (mstore) LoadSnapshot(io.ReadCloser) error                                       { return nil }
func (mstore) LastWALSequenceNumber() uint64                                          { return 0 }

var clientCache *hyper.BatchCache

func concurrentClients(r *ev.Run) {
	type scen struct {
		Bulk    int   `json:"bulkOfClient1"`
		Singles []int `json:"requestsOfClient2"`
	}
	scs := []scen{{2, []int{1}}, {3, []int{1, 1}}, {300, []int{1, 1}}, {600, []int{2}}}
	if !r.Thorough() {
		scs = scs[:3]
	}
	for _, sc := range scs {
		sc := sc
		body := func(x *sx.Exec) {
			var node *consensus.RaftNode
			var raftLock sx.Mutex
			var keys [][]byte
			sx.Setup(func() {
				if clientCache == nil {
					clientCache = hyper.NewBatchCache(hyper.DefaultBatchLevels)
				}
				var err error
				node, err = consensus.VerifNewBareNode("n0", mstore{bplus.NewBPlusTreeStore()}, clientCache, make(chan *protocol.Snapshot, 4096))
				if err != nil {
					panic(err)
				}
				idx := uint64(0)
				node.VerifSetHooks(&consensus.VerifHooks{Propose: func(data []byte) (interface{}, error) {
					raftLock.Lock() // raft applies committed entries one at a time
					defer raftLock.Unlock()
					idx++
					return node.Apply(&raft.Log{Index: idx, Term: 1, Type: raft.LogCommand, Data: data}), nil
				}})
			})
			var wg sx.WaitGroup
			issue := func(name string, sizes []int) {
				wg.Add(1)
				sx.GoNamed(name, false, func() {
					defer wg.Done()
					for ri, k := range sizes {
						var evs [][]byte
						for j := 0; j < k; j++ {
							e := []byte(fmt.Sprintf("%s-request%d-event%d", name, ri, j))
							evs = append(evs, e)
							h := sha256.Sum256(e)
							keys = append(keys, h[:])
						}
						snaps, err := node.AddBulk(evs)
						if err != nil || len(snaps) != k {
							x.Fail("an insertion fails while another client inserts", fmt.Sprint(err))
							return
						}
						for j, s := range snaps {
							h := sha256.Sum256(evs[j])
							if s.Version != snaps[0].Version+uint64(j) {
								x.Fail("a bulk does not receive consecutive versions in request order when another client inserts at the same time", map[string]interface{}{"client": name, "position": j, "first": snaps[0].Version, "got": s.Version})
								return
							}
							if string(s.EventDigest) != string(h[:]) {
								x.Fail("a snapshot does not carry the digest of the event it was issued for", name)
								return
							}
						}
						x.Observe(fmt.Sprintf("%s:%d@%d", name, k, snaps[0].Version))
					}
				})
			}
			issue("client1", []int{sc.Bulk})
			issue("client2", sc.Singles)
			wg.Wait()
			total := sc.Bulk
			for _, k := range sc.Singles {
				total += k
			}
			sx.Setup(func() {
				if v := node.VerifBalloon().Version(); v != uint64(total) {
					x.Fail("after concurrent insertions the current version is not the number of accepted events", v)
				}
				node.VerifCloseBare()
				if !clientCache.VerifReset(keys) {
					clientCache = nil
				}
			})
		}
		e := &sx.Explorer{MaxBound: 2, MaxSteps: 2000, Body: body}
		e.OnFailure = func(x *sx.Exec, f sx.Failure, schedule []int) {
			r.Violation("[C05] "+f.Sig, map[string]interface{}{"scenario": sc, "schedule": append([]int{}, schedule...), "detail": f.Detail})
		}
		e.Run()
		if okr, badr := e.ValidateReplays(); badr > 0 {
			r.Violation("HARNESS: NONDETERMINISM: an explored schedule does not reproduce when replayed", nil)
		} else {
			r.Validated(okr)
		}
		r.Eval(e.Execs)
		r.Distinct(fmt.Sprint("concurrent clients ", sc))
		for k := range e.Outcomes {
			r.Outcome("concurrent clients " + k)
		}
		fmt.Printf("[c05] concurrent clients %v: execs=%d points=%d bound=%d outcomes=%d failures=%v\n", sc, e.Execs, e.PointsTotal, e.BoundCompleted, len(e.Outcomes), e.Failures)
	}
}

func clusterDepth(r *ev.Run) int {
	if r.Thorough() {
		return 6
	}
	return 4
}

func confDepth(r *ev.Run) int {
	if r.Thorough() {
		return 6
	}
	return 4
}

func TestC06(t *testing.T) {
	r := ev.Begin("C06")
	r.Rule(rule + "; C06 oracle: equal tables/caches/version for equal applied index, follower-computed snapshots equal the leader's, every proof of every replica verifies against the leader's snapshots")
	r.Assume(assume...)
	tags := map[string]bool{"C06": true}
	b, reps, maxRep, depth := bounds(r)
	if replay(t, r, reps, maxRep, tags) {
		return
	}
	if r.Thorough() {
		conformance(r, confDepth(r)) // quick: the single-node conformance traces run in C05's check
	}
	realClusters(r, clusterDepth(r))
	fx.BFS(r, reps, maxRep, b, depth, tags, runtime.NumCPU())
	r.Finish()
}
