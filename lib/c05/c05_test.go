//go:build verif

// Package c05: explicit-state breadth-first search over replicated-state-machine events on a cluster
// of bare RaftNodes (package fx). Decides C05 (versions dense, in order, exactly once) and C06
// (replicas agree; any replica's proofs verify against the leader's snapshots).
package c05

import (
	"encoding/json"
	"os"
	"runtime"
	"testing"

	"github.com/bbva/qed/verifx/ev"
	"github.com/bbva/qed/verifx/fx"
)

func replay(t *testing.T, r *ev.Run, replicas, maxRep int, tags map[string]bool) bool {
	if r.Replay == "" {
		return false
	}
	var rd struct {
		Detail struct {
			Events []fx.Event `json:"events"`
		} `json:"detail"`
	}
	b, err := os.ReadFile(r.Replay)
	if err != nil {
		t.Fatal(err)
	}
	json.Unmarshal(b, &rd)
	c, _ := fx.NewCluster(r, replicas, maxRep)
	c.Tags = tags
	defer c.Destroy()
	for _, e := range rd.Detail.Events {
		if !c.Step(e) {
			break
		}
		for _, rp := range c.R {
			c.CheckReplica(rp, true)
		}
	}
	r.Finish()
	return true
}

func bounds(r *ev.Run) (fx.Bounds, int, int, int) {
	if r.Thorough() {
		return fx.Bounds{MaxEntries: 4, BulkSizes: []int{1, 2, 3}, Restarts: true, Crashes: true, Transfers: true, MaxRestarts: 3}, 3, 3, 11
	}
	return fx.Bounds{MaxEntries: 3, BulkSizes: []int{1, 2, 3}, Restarts: true, Crashes: true, Transfers: true, MaxRestarts: 2}, 2, 2, 9
}

const rule = "explicit-state BFS: a state is a cluster of real RaftNode FSMs (no raft.Raft) over real RocksDB stores; transitions = propose(bulk), deliver(r), restart(r) (clean stop, reopen, start-up Restore, re-delivery of the applied entries), crashBefore(r) (apply aborted immediately before the store write, node dropped, reopen, re-delivery), transfer(r); every transition runs the real Apply/Restore/Query code; after every transition every replica is compared with a fault-free replica at the same applied index (version, FSM state, four table dumps, filled hyper-cache buckets) and every membership (e,q) and incremental (i,j) proof it serves is verified against the snapshots the leader acknowledged; states are de-duplicated on (log, per-replica applied/snapshot index, FSM state, table and cache hashes) with followers interchangeable"

var assume = []string{"environment model = hashicorp/raft's contract to its FSM (in-order delivery of committed entries, start-up Restore + re-delivery, leadership as a label); bound to the implementation by the real-cluster conformance traces (see traces_validated_against_impl)",
	"RocksDB's atomic write batch and WAL recovery are trusted base", "de-duplication on observed state assumes a replica's future depends only on its stored tables, FSM state and hyper cache (the history LRU is read-through)"}

func TestC05(t *testing.T) {
	r := ev.Begin("C05")
	r.Rule(rule + "; C05 oracle: the k-th accepted event is acknowledged with version k-1 and its own digest, bulks get consecutive versions, version = applied events, persisted FSM state matches, a re-delivered entry is rejected and changes nothing")
	r.Assume(assume...)
	tags := map[string]bool{"C05": true}
	b, reps, maxRep, depth := bounds(r)
	if replay(t, r, reps, maxRep, tags) {
		return
	}
	fx.BFS(r, reps, maxRep, b, depth, tags, runtime.NumCPU())
	r.Finish()
}

func TestC06(t *testing.T) {
	r := ev.Begin("C06")
	r.Rule(rule + "; C06 oracle: equal tables/caches/version for equal applied index, follower-computed snapshots equal the leader's, every proof of every replica verifies against the leader's snapshots")
	r.Assume(assume...)
	tags := map[string]bool{"C06": true}
	b, reps, maxRep, depth := bounds(r)
	if replay(t, r, reps, maxRep, tags) {
		return
	}
	fx.BFS(r, reps, maxRep, b, depth, tags, runtime.NumCPU())
	r.Finish()
}
