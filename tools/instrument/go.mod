module instrument

go 1.23
