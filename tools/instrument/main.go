// instrument: check-time source transformation of a scratch copy of BBVA/QED for the controlled
// scheduler (verifx/sx). Purely syntactic; fails loudly on a construct it does not support and
// prints how many sites of each kind it rewrote.
//
//	instrument -root <tree> [-yield path/file.go:Func,...] path/file.go ...
//
// Per file: import "sync" -> the shim package under the same name; `go f(a)` -> sx.Go with the
// arguments evaluated at the go statement; `ch <- v`, `<-ch`, `x := <-ch` preceded by sx.WaitSend /
// sx.WaitRecv; close(ch) preceded by sx.Closing(ch); select -> switch sx.Select(...);
// time.Sleep(d) -> sx.Yield. -yield inserts sx.Yield("<Func>") at the entry of the named functions.
package main

import (
	"bytes"
	"flag"
	"fmt"
	"go/ast"
	"go/format"
	"go/parser"
	"go/token"
	"os"
	"path/filepath"
	"strconv"
	"strings"
)

const shimPath = "github.com/bbva/qed/verifx/sx"

var counts = map[string]int{}

func fail(format string, a ...interface{}) {
	fmt.Fprintf(os.Stderr, "instrument: "+format+"\n", a...)
	os.Exit(2)
}

func sel(x, s string) *ast.SelectorExpr { return &ast.SelectorExpr{X: ast.NewIdent(x), Sel: ast.NewIdent(s)} }
func call(fn ast.Expr, args ...ast.Expr) *ast.CallExpr {
	return &ast.CallExpr{Fun: fn, Args: args}
}
func stmt(e ast.Expr) ast.Stmt { return &ast.ExprStmt{X: e} }
func str(s string) ast.Expr   { return &ast.BasicLit{Kind: token.STRING, Value: strconv.Quote(s)} }

type rewriter struct {
	file  string
	tmp   int
	usedX bool
}

func (r *rewriter) recvChan(e ast.Expr) (ast.Expr, bool) {
	if u, ok := e.(*ast.UnaryExpr); ok && u.Op == token.ARROW {
		return u.X, true
	}
	if p, ok := e.(*ast.ParenExpr); ok {
		return r.recvChan(p.X)
	}
	return nil, false
}

func isTimeAfter(e ast.Expr) (ast.Expr, bool) {
	c, ok := e.(*ast.CallExpr)
	if !ok {
		return nil, false
	}
	s, ok := c.Fun.(*ast.SelectorExpr)
	if !ok {
		return nil, false
	}
	if id, ok := s.X.(*ast.Ident); ok && id.Name == "time" && s.Sel.Name == "After" && len(c.Args) == 1 {
		return c.Args[0], true
	}
	return nil, false
}

// list rewrites a statement list.
func (r *rewriter) list(in []ast.Stmt) []ast.Stmt {
	var out []ast.Stmt
	for _, s := range in {
		out = append(out, r.stmt(s)...)
	}
	return out
}

func (r *rewriter) block(b *ast.BlockStmt) {
	if b != nil {
		b.List = r.list(b.List)
	}
}

// exprs rewrites function literals nested in expressions of s.
func (r *rewriter) funcLits(n ast.Node) {
	ast.Inspect(n, func(x ast.Node) bool {
		if fl, ok := x.(*ast.FuncLit); ok {
			r.block(fl.Body)
			return false
		}
		return true
	})
}

func (r *rewriter) stmt(s ast.Stmt) []ast.Stmt {
	switch v := s.(type) {
	case *ast.GoStmt:
		counts["go"]++
		r.usedX = true
		// evaluate the function value (if it is a literal it is kept as is) and the arguments now
		var pre []ast.Stmt
		var lhs, rhs []ast.Expr
		args := make([]ast.Expr, len(v.Call.Args))
		for i, a := range v.Call.Args {
			r.tmp++
			id := ast.NewIdent(fmt.Sprintf("verifArg%d", r.tmp))
			lhs, rhs, args[i] = append(lhs, id), append(rhs, a), id
		}
		if len(lhs) > 0 {
			pre = append(pre, &ast.AssignStmt{Lhs: lhs, Tok: token.DEFINE, Rhs: rhs})
		}
		if fl, ok := v.Call.Fun.(*ast.FuncLit); ok {
			r.block(fl.Body)
		}
		inner := &ast.CallExpr{Fun: v.Call.Fun, Args: args, Ellipsis: v.Call.Ellipsis}
		body := &ast.BlockStmt{List: []ast.Stmt{stmt(inner)}}
		g := stmt(call(sel("sx", "Go"), &ast.FuncLit{Type: &ast.FuncType{Params: &ast.FieldList{}}, Body: body}))
		return []ast.Stmt{&ast.BlockStmt{List: append(pre, g)}}
	case *ast.SendStmt:
		counts["send"]++
		r.usedX = true
		r.funcLits(v.Value)
		return []ast.Stmt{stmt(call(sel("sx", "WaitSend"), v.Chan)), v}
	case *ast.ExprStmt:
		if ch, ok := r.recvChan(v.X); ok {
			counts["recv"]++
			r.usedX = true
			return []ast.Stmt{stmt(call(sel("sx", "WaitRecv"), ch)), v}
		}
		if c, ok := v.X.(*ast.CallExpr); ok {
			if id, ok := c.Fun.(*ast.Ident); ok && id.Name == "close" && len(c.Args) == 1 {
				counts["close"]++
				r.usedX = true
				return []ast.Stmt{stmt(call(sel("sx", "Closing"), c.Args[0])), v}
			}
			if s, ok := c.Fun.(*ast.SelectorExpr); ok {
				if id, ok := s.X.(*ast.Ident); ok && id.Name == "time" && s.Sel.Name == "Sleep" {
					counts["sleep"]++
					r.usedX = true
					return []ast.Stmt{stmt(call(sel("sx", "Yield"), str("time.Sleep")))}
				}
			}
		}
		r.funcLits(v)
		return []ast.Stmt{v}
	case *ast.AssignStmt:
		if len(v.Rhs) == 1 {
			if ch, ok := r.recvChan(v.Rhs[0]); ok {
				counts["recv"]++
				r.usedX = true
				return []ast.Stmt{stmt(call(sel("sx", "WaitRecv"), ch)), v}
			}
		}
		r.funcLits(v)
		r.checkNoChanOps(v)
		return []ast.Stmt{v}
	case *ast.BlockStmt:
		r.block(v)
	case *ast.IfStmt:
		if v.Init != nil {
			r.checkNoChanOps(v.Init)
			r.funcLits(v.Init)
		}
		r.checkNoChanOps(v.Cond)
		r.block(v.Body)
		if v.Else != nil {
			e := r.stmt(v.Else)
			if len(e) == 1 {
				v.Else = e[0]
			} else {
				v.Else = &ast.BlockStmt{List: e}
			}
		}
	case *ast.ForStmt:
		r.block(v.Body)
	case *ast.RangeStmt:
		r.block(v.Body)
	case *ast.SwitchStmt:
		for _, c := range v.Body.List {
			cc := c.(*ast.CaseClause)
			cc.Body = r.list(cc.Body)
		}
	case *ast.TypeSwitchStmt:
		for _, c := range v.Body.List {
			cc := c.(*ast.CaseClause)
			cc.Body = r.list(cc.Body)
		}
	case *ast.LabeledStmt:
		x := r.stmt(v.Stmt)
		if len(x) != 1 {
			fail("%s: labelled statement needs a multi-statement rewrite", r.file)
		}
		v.Stmt = x[0]
	case *ast.DeferStmt:
		r.funcLits(v.Call)
	case *ast.ReturnStmt:
		r.funcLits(v)
		r.checkNoChanOps(v)
	case *ast.SelectStmt:
		return []ast.Stmt{r.selectStmt(v)}
	case *ast.DeclStmt:
		r.funcLits(v)
	}
	return []ast.Stmt{s}
}

// checkNoChanOps: a channel operation nested inside an expression cannot be preceded by a wait.
func (r *rewriter) checkNoChanOps(n ast.Node) {
	ast.Inspect(n, func(x ast.Node) bool {
		if _, ok := x.(*ast.FuncLit); ok {
			return false
		}
		if u, ok := x.(*ast.UnaryExpr); ok && u.Op == token.ARROW {
			fail("%s: channel receive nested in an expression is not supported", r.file)
		}
		return true
	})
}

func (r *rewriter) selectStmt(s *ast.SelectStmt) ast.Stmt {
	counts["select"]++
	r.usedX = true
	var cases []ast.Expr
	var clauses []ast.Stmt
	for i, c := range s.Body.List {
		cc := c.(*ast.CommClause)
		body := r.list(cc.Body)
		var first []ast.Stmt
		switch comm := cc.Comm.(type) {
		case nil:
			cases = append(cases, call(sel("sx", "Default")))
		case *ast.SendStmt:
			cases = append(cases, call(sel("sx", "S"), comm.Chan))
			first = []ast.Stmt{comm}
		case *ast.ExprStmt:
			ch, ok := r.recvChan(comm.X)
			if !ok {
				fail("%s: unsupported select case", r.file)
			}
			if d, ok := isTimeAfter(ch); ok {
				cases = append(cases, call(sel("sx", "T"), d))
			} else {
				cases = append(cases, call(sel("sx", "R"), ch))
				first = []ast.Stmt{comm}
			}
		case *ast.AssignStmt:
			ch, ok := r.recvChan(comm.Rhs[0])
			if !ok {
				fail("%s: unsupported select case", r.file)
			}
			if _, ok := isTimeAfter(ch); ok {
				fail("%s: value of time.After used in select", r.file)
			}
			cases = append(cases, call(sel("sx", "R"), ch))
			first = []ast.Stmt{comm}
			// the received variable may be unused in the body only if the source did not use it either
		}
		clauses = append(clauses, &ast.CaseClause{List: []ast.Expr{&ast.BasicLit{Kind: token.INT, Value: strconv.Itoa(i)}}, Body: append(first, body...)})
	}
	return &ast.SwitchStmt{Tag: call(sel("sx", "Select"), cases...), Body: &ast.BlockStmt{List: clauses}}
}

func main() {
	root := flag.String("root", "", "scratch tree")
	yields := flag.String("yield", "", "comma separated path/file.go:Func (or :Recv.Func) entries that get a scheduling point at entry")
	allowEmpty := flag.Bool("allow-empty", false, "do not fail when no site was rewritten (files listed only in case they use sync)")
	flag.Parse()
	if *root == "" || flag.NArg() == 0 {
		fail("usage: instrument -root <tree> [-yield f.go:Func,...] file.go ...")
	}
	abs, _ := filepath.Abs(*root)
	if abs == "/repo" || strings.HasPrefix(abs, "/repo/") {
		fail("refusing to touch /repo")
	}
	ymap := map[string]map[string]bool{}
	for _, y := range strings.Split(*yields, ",") {
		if y == "" {
			continue
		}
		p := strings.SplitN(y, ":", 2)
		if len(p) != 2 {
			fail("bad -yield entry %q", y)
		}
		if ymap[p[0]] == nil {
			ymap[p[0]] = map[string]bool{}
		}
		ymap[p[0]][p[1]] = false
	}
	files := flag.Args()
	for f := range ymap {
		found := false
		for _, g := range files {
			if g == f {
				found = true
			}
		}
		if !found {
			files = append(files, f)
		}
	}
	for _, rel := range files {
		// "file.go@sync": only the sync import is redirected (the file's own goroutines, channels and
		// selects are not on any path the harness runs and stay native)
		syncOnly := false
		if strings.HasSuffix(rel, "@sync") {
			rel, syncOnly = strings.TrimSuffix(rel, "@sync"), true
		}
		path := filepath.Join(*root, rel)
		fset := token.NewFileSet()
		f, err := parser.ParseFile(fset, path, nil, parser.ParseComments)
		if err != nil {
			fail("%v", err)
		}
		r := &rewriter{file: rel}
		hasSync := false
		for _, im := range f.Imports {
			if im.Path.Value == `"sync"` {
				if im.Name != nil && im.Name.Name != "sync" {
					fail("%s: renamed sync import", rel)
				}
				im.Path.Value = strconv.Quote(shimPath)
				im.Name = ast.NewIdent("sync")
				hasSync = true
				counts["sync-import"]++
			}
		}
		if hasSync {
			ast.Inspect(f, func(n ast.Node) bool {
				if s, ok := n.(*ast.SelectorExpr); ok {
					if id, ok := s.X.(*ast.Ident); ok && id.Name == "sync" && id.Obj == nil {
						switch s.Sel.Name {
						case "Mutex", "RWMutex", "WaitGroup", "Once", "Locker":
						default:
							fail("%s: sync.%s has no shim", rel, s.Sel.Name)
						}
					}
				}
				return true
			})
		}
		for _, d := range f.Decls {
			fd, ok := d.(*ast.FuncDecl)
			if !ok || fd.Body == nil {
				continue
			}
			if !syncOnly {
				r.block(fd.Body)
			}
			name := fd.Name.Name
			if fd.Recv != nil && len(fd.Recv.List) == 1 {
				t := fd.Recv.List[0].Type
				if st, ok := t.(*ast.StarExpr); ok {
					t = st.X
				}
				if id, ok := t.(*ast.Ident); ok {
					name = id.Name + "." + name
				}
			}
			if m := ymap[rel]; m != nil {
				if _, ok := m[name]; ok {
					m[name] = true
					counts["yield"]++
					r.usedX = true
					fd.Body.List = append([]ast.Stmt{stmt(call(sel("sx", "Yield"), str(name)))}, fd.Body.List...)
				}
			}
		}
		for name, done := range ymap[rel] {
			if !done {
				fail("%s: function %s for -yield not found", rel, name)
			}
		}
		if r.usedX {
			// add the import
			spec := &ast.ImportSpec{Name: ast.NewIdent("sx"), Path: &ast.BasicLit{Kind: token.STRING, Value: strconv.Quote(shimPath)}}
			added := false
			for _, d := range f.Decls {
				if gd, ok := d.(*ast.GenDecl); ok && gd.Tok == token.IMPORT {
					gd.Specs = append(gd.Specs, spec)
					if !gd.Lparen.IsValid() {
						gd.Lparen = gd.Pos()
						gd.Rparen = gd.End()
					}
					added = true
					break
				}
			}
			if !added {
				f.Decls = append([]ast.Decl{&ast.GenDecl{Tok: token.IMPORT, Specs: []ast.Spec{spec}}}, f.Decls...)
			}
		}
		var buf bytes.Buffer
		if err := format.Node(&buf, fset, f); err != nil {
			fail("%s: %v", rel, err)
		}
		outb := buf.Bytes()
		if r.usedX {
			// the generic helpers need Go 1.18 language features in this file (the module says go 1.13)
			if bytes.Contains(outb, []byte("//go:build ")) {
				fail("%s: already carries a build constraint", rel)
			}
			outb = append([]byte("//go:build go1.18\n\n"), outb...)
		}
		if err := os.WriteFile(path, outb, 0644); err != nil {
			fail("%v", err)
		}
	}
	total := 0
	var parts []string
	for _, k := range []string{"sync-import", "go", "send", "recv", "close", "select", "sleep", "yield"} {
		parts = append(parts, fmt.Sprintf("%s=%d", k, counts[k]))
		total += counts[k]
	}
	fmt.Println("instrument: " + strings.Join(parts, " "))
	if total == 0 && !*allowEmpty {
		fail("nothing was instrumented")
	}
}
