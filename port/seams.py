#!/usr/bin/env python3
"""seams.py <tree>: check-time seams in a scratch copy of BBVA/QED (DESIGN §3.B). The two RaftNode
methods that talk to hashicorp/raft / gRPC are renamed (purely syntactic) so that the wrappers in
harness/consensus/verif_fsm.go can stand in front of them. Fails loudly if a definition is not found."""
import os, sys
tree = sys.argv[1]
assert os.path.abspath(tree) not in ("/repo",), "refusing to touch /repo"
SEAMS = [
    ("consensus/cluster.go", "func (n *RaftNode) propose(cmd *command) (interface{}, error) {", "func (n *RaftNode) proposeVerifOrig(cmd *command) (interface{}, error) {"),
    ("consensus/snapshot.go", "func (n *RaftNode) attemptToFetchSnapshot(lastSeqNum, lastAppliedVersion uint64) (io.ReadCloser, error) {", "func (n *RaftNode) attemptToFetchSnapshotVerifOrig(lastSeqNum, lastAppliedVersion uint64) (io.ReadCloser, error) {"),
]
for path, old, new in SEAMS:
    fp = os.path.join(tree, path)
    src = open(fp).read()
    if src.count(old) != 1:
        print("INFRA: seam: %r not found exactly once in %s" % (old, path))
        sys.exit(2)
    open(fp, "w").write(src.replace(old, new))
print("seams: %d definitions renamed" % len(SEAMS))
