#!/usr/bin/env python3
"""seams.py <tree>: check-time seams in a scratch copy of BBVA/QED (DESIGN §3.B). The two RaftNode
methods that talk to hashicorp/raft / gRPC are renamed (purely syntactic) so that the wrappers in
harness/consensus/verif_fsm.go can stand in front of them. Fails loudly if a definition is not found."""
import os, sys
tree = sys.argv[1]
assert os.path.abspath(tree) not in ("/repo",), "refusing to touch /repo"
SEAMS = [
    ("consensus/cluster.go", "func (n *RaftNode) propose(cmd *command) (interface{}, error) {", "func (n *RaftNode) proposeVerifOrig(cmd *command) (interface{}, error) {"),
    # the gRPC call of a follower to the leader (inside attemptToFetchSnapshot): the call expression is
    # redirected, so the seam does not depend on the signature of the enclosing function
    ("consensus/snapshot.go", "client.FetchSnapshot(context.Background(), ", "verifFetchRPC(n, client, context.Background(), "),
]
which = sys.argv[2] if len(sys.argv) > 2 else "consensus"
if which == "consensus":
    for path, old, new in SEAMS:
        fp = os.path.join(tree, path)
        src = open(fp).read()
        if src.count(old) != 1:
            print("INFRA: seam: %r not found exactly once in %s" % (old, path))
            sys.exit(2)
        open(fp, "w").write(src.replace(old, new))
    print("seams: %d sites redirected" % len(SEAMS))
    # durable writes of the raft log store get a boundary hook before and after (crash-point enumeration)
    fp = os.path.join(tree, "consensus/raft_log.go")
    src = open(fp).read()
    n = 0
    for name, sig in [("StoreLog", "func (s *raftLog) StoreLog(log *raft.Log) error {"),
                      ("StoreLogs", "func (s *raftLog) StoreLogs(logs []*raft.Log) error {"),
                      ("DeleteRange", "func (s *raftLog) DeleteRange(min, max uint64) error {"),
                      ("Set", "func (s *raftLog) Set(key []byte, val []byte) error {")]:
        if src.count(sig) != 1:
            print("INFRA: seam: %r not found exactly once in consensus/raft_log.go" % sig)
            sys.exit(2)
        src = src.replace(sig, sig + "\n\tverifBoundary(\"raftlog." + name + ":enter\")\n\tdefer verifBoundary(\"raftlog." + name + ":exit\")")
        n += 1
    open(fp, "w").write(src)
    print("seams: %d raft-log write boundaries hooked" % n)
elif which == "client":
    # Go map iteration order is random: the two places where the client walks the shards map of a
    # /info/shards or redirect body get an order chosen by the harness (harness/client/verif_export.go)
    fp = os.path.join(tree, "client/client.go")
    src = open(fp).read()
    old = "for id, shard := range shards.Shards {"
    if src.count(old) != 2:
        print("INFRA: seam: expected 2 iterations over shards.Shards in client/client.go, found %d" % src.count(old))
        sys.exit(2)
    open(fp, "w").write(src.replace(old, "for _, id := range verifShardIDs(shards.Shards) {\n\t\t\tshard := shards.Shards[id]"))
    print("seams: 2 map iterations ordered")
elif which == "gossip":
    # the transport call of Agent.Send and the shuffle of PeerList are redirected to hooks in
    # harness/gossip/verif_export.go (the originals are passed along, so the imports stay in use)
    for path, old, new, n in [
        ("gossip/agent.go", "_ = a.gossip.SendReliable(dst, wire)", "_ = verifSendReliable(a, dst, wire)", 1),
        ("gossip/peer.go", "rand.Shuffle(len(l.L), func(i, j int) {", "verifShuffle(l, rand.Shuffle, len(l.L), func(i, j int) {", 1),
    ]:
        fp = os.path.join(tree, path)
        src = open(fp).read()
        if src.count(old) != n:
            print("INFRA: seam: %r not found exactly %d time(s) in %s" % (old, n, path))
            sys.exit(2)
        open(fp, "w").write(src.replace(old, new))
    print("seams: 2 gossip sites redirected")

