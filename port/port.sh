#!/bin/sh
# Port the cgo RocksDB wrapper of a scratch copy of BBVA/QED to the system
# librocksdb 7.8 (DESIGN.md §2.1).  Purely a transformation of the *current*
# file contents of the tree given as $1; never applied to /repo itself.
set -e
R="$1"
[ -d "$R/rocksdb" ] || { echo "port.sh: $R/rocksdb missing" >&2; exit 2; }
case "$R" in /repo|/repo/) echo "port.sh: refusing to patch /repo" >&2; exit 2;; esac
sed -i 's/rocksdb_backup_engine_restore_db_from_backup(/qed_backup_engine_restore_db_from_backup(/; s/rocksdb_backup_engine_delete_backup(/qed_backup_engine_delete_backup(/' "$R/rocksdb/extended.h" "$R/rocksdb/extended.cpp"
sed -i 's/C\.rocksdb_backup_engine_restore_db_from_backup(/C.qed_backup_engine_restore_db_from_backup(/; s/C\.rocksdb_backup_engine_delete_backup(/C.qed_backup_engine_delete_backup(/' "$R/rocksdb/backup.go"
sed -i 's#rocksdb/utilities/backupable_db.h#rocksdb/utilities/backup_engine.h#' "$R/rocksdb/extended.cpp"
sed -i '/-ljemalloc/d; s/-std=c++11/-std=c++17/' "$R/rocksdb/flags.go"
sed -i 's/^\tC\.rocksdb_block_based_options_set_hash_index_allow_collision(o\.c, boolToUchar(value))/\t_ = value/' "$R/rocksdb/options_block_based_table.go"
sed -i 's/rocksdb_filterpolicy_create_bloom(C\.int(bitsPerKey))/rocksdb_filterpolicy_create_bloom(C.double(bitsPerKey))/; s/rocksdb_filterpolicy_create_bloom_full(C\.int(bitsPerKey))/rocksdb_filterpolicy_create_bloom_full(C.double(bitsPerKey))/' "$R/rocksdb/filter_policy.go"
