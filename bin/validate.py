#!/opt/veriftools/pyvenv/bin/python3
import json, jsonschema, glob, sys
jsonschema.validate(json.load(open('/verif/MANIFEST.json')), json.load(open('/root/.vp/MANIFEST.schema.json')))
es = json.load(open('/root/.vp/EVIDENCE.schema.json'))
for f in sorted(glob.glob('/verif/evidence/*.json')):
    try:
        jsonschema.validate(json.load(open(f)), es)
    except Exception as e:
        print("INVALID", f, str(e)[:300]); sys.exit(1)
print("manifest + %d evidence files valid" % len(glob.glob('/verif/evidence/*.json')))
