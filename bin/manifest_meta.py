HOOKS = {
    "guard": "verif",
    "enable": "checks never build /repo in place: bin/vcheck rsyncs /repo's current working tree to a scratch directory, ports the cgo RocksDB wrapper to the system librocksdb (port/port.sh, a transformation of the current file contents), drops build-tagged (//go:build verif) export shims and harness packages into the copy and builds it with `go test -c -tags verif`. No hook is committed to /repo.",
    "baseline_off_cmd": "cd /repo && GOFLAGS=-mod=mod go test -vet=off -count=1 ./client/... ./crypto/... ./gossip/... ./log/... ./storage/bplus/... ./testutils/...",
    "source_commits": [],
    "add_only": True,
}
ENGINES = [
    {"name": "seqx", "path": "/verif/lib", "serves_properties": ["C01", "C02", "C03", "C04"],
     "kind_free_text": "bounded exhaustive enumeration of operation sequences / inputs on the real code, compared step by step with independent reference models (lib/ref)"},
]
NOTES = "See DESIGN.md. KNOWN_FINDINGS.txt lists genuine defects (fixed: / known:)."
NOT_APPLICABLE = {}
SEQX = "bounded exhaustive enumeration on the real implementation vs. reference model"
META = {
    "C01": {"engine": "seqx", "design_ref": "§4 C01", "technique": SEQX,
            "text": "Every ordered sequence (length <=4 quick / <=6 thorough) over crafted digest sub-alphabets that reach every hyper-tree collision depth (0,23,24,27,28,31,32,128,254,255 shared bits), in every composition into Add/AddBulk groups, on the in-memory and the RocksDB back-end, plus long logs (n=70..257) and a 700/2100-event bulk: after every group every (event, query version) pair is queried on the real balloon and the proof is verified by the real DigestVerify (in-process and after the JSON round trip) and by an independent reference verifier against the snapshots actually issued. Exhaustive within those bounds; not a proof for all n.",
            "note": "Trusted: crypto/sha256, encoding/json, librocksdb 7.8 (port of the wrapper). Digests outside the alphabet and logs longer than the bound are not explored."},
    "C02": {"engine": "seqx", "design_ref": "§4 C02", "technique": "bounded exhaustive enumeration of adversarial answers (Dolev-Yao recombination) against the real decoder+verifier",
            "text": "For every log over a crafted sub-alphabet (all ordered sequences up to length 3 quick / 4 thorough) and queried digests incl. never-added ones sharing 24/128/254/255 bits with an added one: every candidate answer obtainable from the genuine answers of every prefix of the log by (i) setting every scalar field to every value of its domain, (ii) removing every subset of history entries combined with hyper-path truncations/extensions, (iii) replacing each entry by every other value that position ever had, (iv) recombining the hyper part of one answer with the history part and scalars of another, is decoded by the real protocol.ToBalloonProof and verified by the real DigestVerify against every authentic (history digest, hyper digest) pair; every accepted candidate must claim existence of a digest really inserted at the claimed version <= query version. ~5M verifier calls (quick).",
            "note": "Adversary recombines known values only (collision resistance assumed). Panics of the verifier are C12's subject."},
    "C03": {"engine": "seqx", "design_ref": "§4 C03", "technique": SEQX,
            "text": "Logs of n=66 (quick) / 130 (thorough) events in three groupings; ALL pairs i<=j<n: the real QueryConsistency answer, JSON round trip, real IncrementalProof.Verify and the reference verifier must accept against snapshots i and j; every other version's digest at either end, the digests of a log forked at every point f<=j, every single audit-path entry flipped / removed / replaced by the forked log's node, and Start/End +-1 must be rejected; invalid ranges must be refused.",
            "note": "History is digest-agnostic, so only n matters; fork digests come from the reference tree (bound to the code by C04)."},
    "C04": {"engine": "seqx", "design_ref": "§4 C04", "technique": SEQX,
            "text": "Same enumeration as C01 extended with history-LRU capacities {2,8,300}, every restart point (RocksDB) and forced-bulk singles: every snapshot's history and hyper digest is compared with an independent 60-line reference implementation of the position-salted history tree and the 256-level sparse Merkle tree; old history digests are re-derived from the store at the end; the in-memory hyper cache is compared with one rebuilt from storage.",
            "note": "The reference pins hyper inner nodes as H(right||left||pos) (what every published digest depends on). Replica dimension is C06's. Distinct events only for the hyper comparison, as the property states."},
}
