HOOKS = {
    "guard": "verif",
    "enable": "checks never build /repo in place: bin/vcheck rsyncs /repo's current working tree to a scratch directory, ports the cgo RocksDB wrapper to the system librocksdb (port/port.sh, a transformation of the current file contents), drops build-tagged (//go:build verif) export shims and harness packages into the copy and builds it with `go test -c -tags verif`. No hook is committed to /repo.",
    "baseline_off_cmd": "cd /repo && GOFLAGS=-mod=mod go test -vet=off -count=1 ./client/... ./crypto/... ./gossip/... ./log/... ./storage/bplus/... ./testutils/...",
    "source_commits": [],
    "add_only": True,
}
ENGINES = [
    {"name": "seqx", "path": "/verif/lib", "serves_properties": ["C01", "C04"],
     "kind_free_text": "bounded exhaustive enumeration of operation sequences / inputs on the real code, compared step by step with independent reference models (lib/ref)"},
]
NOTES = "See DESIGN.md. KNOWN_FINDINGS.txt lists genuine defects (fixed: / known:)."
NOT_APPLICABLE = {}
SEQX = "bounded exhaustive enumeration on the real implementation vs. reference model"
META = {
    "C01": {"engine": "seqx", "design_ref": "§4 C01", "technique": SEQX,
            "text": "Every ordered sequence (length <=4 quick / <=6 thorough) over crafted digest sub-alphabets that reach every hyper-tree collision depth (0,23,24,27,28,31,32,128,254,255 shared bits), in every composition into Add/AddBulk groups, on the in-memory and the RocksDB back-end, plus long logs (n=70..257) and a 700/2100-event bulk: after every group every (event, query version) pair is queried on the real balloon and the proof is verified by the real DigestVerify (in-process and after the JSON round trip) and by an independent reference verifier against the snapshots actually issued. Exhaustive within those bounds; not a proof for all n.",
            "note": "Trusted: crypto/sha256, encoding/json, librocksdb 7.8 (port of the wrapper). Digests outside the alphabet and logs longer than the bound are not explored."},
    "C04": {"engine": "seqx", "design_ref": "§4 C04", "technique": SEQX,
            "text": "Same enumeration as C01 extended with history-LRU capacities {2,8,300}, every restart point (RocksDB) and forced-bulk singles: every snapshot's history and hyper digest is compared with an independent 60-line reference implementation of the position-salted history tree and the 256-level sparse Merkle tree; old history digests are re-derived from the store at the end; the in-memory hyper cache is compared with one rebuilt from storage.",
            "note": "The reference pins hyper inner nodes as H(right||left||pos) (what every published digest depends on). Replica dimension is C06's. Distinct events only for the hyper comparison, as the property states."},
}
