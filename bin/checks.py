# Per-property configuration of the driver (bin/vcheck).
#  pkg      : package (relative to the scratch tree) holding the harness test
#  run      : test function
#  harness  : repo packages that receive the build-tagged export shims from /verif/harness/<pkg>/
#  level    : evidence level
EXPORTS = ["balloon", "balloon/hyper"]
EXPORTS2 = EXPORTS + ["consensus"]
CHECKS = {
    "C01": {"pkg": "verifx/c01", "run": "TestC01", "harness": EXPORTS, "level": "exploration"},
    "C04": {"pkg": "verifx/c01", "run": "TestC04", "harness": EXPORTS, "level": "exploration"},
    "C02": {"pkg": "verifx/c02", "run": "TestC02", "harness": EXPORTS, "level": "exploration"},
    "C03": {"pkg": "verifx/c03", "run": "TestC03", "harness": EXPORTS, "level": "exploration"},
    "C05": {"pkg": "verifx/c05", "run": "TestC05", "harness": EXPORTS2, "level": "model_checking", "quick": {"budget_s": 700}, "thorough": {"budget_s": 3000}},
    "C06": {"pkg": "verifx/c05", "run": "TestC06", "harness": EXPORTS2, "level": "model_checking", "quick": {"budget_s": 600}, "thorough": {"budget_s": 3000}},
    "C09": {"pkg": "verifx/c09", "run": "TestC09", "harness": EXPORTS2, "level": "model_checking", "quick": {"budget_s": 480}, "thorough": {"budget_s": 3000}},
    "C20": {"pkg": "verifx/c20", "run": "TestC20", "harness": ["client"], "level": "model_checking"},
    "C07": {"pkg": "verifx/c07", "run": "TestC07", "harness": EXPORTS2, "level": "fault_enumeration", "thorough": {"budget_s": 2400}},
    "C08": {"pkg": "verifx/c08", "run": "TestC08", "harness": EXPORTS2, "level": "fault_enumeration"},
    "C11": {"pkg": "verifx/c11", "run": "TestC11", "harness": EXPORTS2, "level": "exploration"},
    "C16": {"pkg": "verifx/c16", "run": "TestC16", "harness": EXPORTS2, "level": "exploration", "thorough": {"budget_s": 2400}},
    "C19": {"pkg": "verifx/c19", "run": "TestC19", "harness": EXPORTS2 + ["cmd", "gossip"], "level": "exploration", "instrument": ["-allow-empty", "cmd/agent_publisher.go@sync", "gossip/bus.go", "gossip/processor.go"], "shards": 8, "thorough": {"budget_s": 2400, "shards": 16}},
    "C10": {"pkg": "verifx/c10", "run": "TestC10", "harness": EXPORTS2, "level": "model_checking", "shards": 16, "gomaxprocs": 2,
            "instrument": ["balloon/balloon.go", "balloon/hyper/tree.go", "balloon/hyper/batch_cache.go", "consensus/cluster.go@sync"], "quick": {"budget_s": 600}, "thorough": {"budget_s": 3000},
            "extra": [{"run": "TestC10Race", "race": True, "gomaxprocs": 8}]},
    "C17": {"pkg": "verifx/c17", "run": "TestC17", "harness": EXPORTS2, "level": "model_checking", "shards": 16, "gomaxprocs": 2,
            "instrument": ["server/sender.go", "gossip/bus.go", "consensus/fsm.go"], "quick": {"budget_s": 400}, "thorough": {"budget_s": 3000},
            "extra": [{"run": "TestC17Race", "race": True, "gomaxprocs": 8}]},
    "C18": {"pkg": "verifx/c18", "run": "TestC18", "harness": EXPORTS + ["gossip"], "level": "model_checking", "shards": 13, "gomaxprocs": 2,
            "instrument": ["gossip/bus.go", "gossip/processor.go", "gossip/topology.go@sync"], "quick": {"budget_s": 400}, "thorough": {"budget_s": 3000},
            "extra": [{"run": "TestC18Race", "race": True, "gomaxprocs": 8}]},
    "C12": {"pkg": "verifx/c12", "run": "TestC12", "harness": EXPORTS, "level": "exploration"},
    "C14": {"pkg": "verifx/c14", "run": "TestC14", "harness": [], "level": "exploration", "thorough": {"budget_s": 3600}},
    "C15": {"pkg": "verifx/c15", "run": "TestC15", "harness": EXPORTS2, "level": "exploration"},
    "C13": {"pkg": "verifx/c13", "run": "TestC13", "harness": EXPORTS2, "level": "exploration"},
}
