#!/bin/sh
# Run once after a fresh restore, offline: builds the instrumenter (if present) and warms the
# Go build cache by building one scratch tree (the cgo RocksDB wrapper is the slow part).
set -e
export GOFLAGS=-mod=mod GOPROXY=off GOSUMDB=off GOTOOLCHAIN=local CGO_LDFLAGS_ALLOW='.*'
V=/verif
mkdir -p $V/evidence $V/replays $V/tools/bin
if [ -d $V/tools/instrument ]; then
  (cd $V/tools/instrument && go build -o $V/tools/bin/instrument .)
fi
S=$(mktemp -d /var/tmp/qedverif.setup.XXXXXX)
trap 'rm -rf "$S"' EXIT
rsync -a --exclude .git /repo/ $S/repo/
find $S/repo -name '*_test.go' -delete
$V/port/port.sh $S/repo
$V/port/seams.py $S/repo
$V/port/seams.py $S/repo client
$V/port/seams.py $S/repo gossip
cp -r $V/lib $S/repo/verifx
for d in $(cd $V/harness && find . -name '*.go' -printf '%h\n' | sort -u); do cp $V/harness/$d/*.go $S/repo/$d/; done
(cd $S/repo && go build -tags verif -trimpath ./... && go vet -tags verif ./verifx/ev >/dev/null 2>&1 || true)
(cd $S/repo && for p in $(go list -tags verif ./verifx/... ); do go test -c -tags verif -trimpath -vet=off -o /dev/null $p || exit 1; done)
echo setup ok
