#!/usr/bin/env python3
"""Regenerates MANIFEST.json from bin/checks.py + bin/manifest_meta.py (kept valid at all times)."""
import json, os, sys
V = os.path.dirname(os.path.dirname(os.path.abspath(__file__)))
sys.path.insert(0, os.path.join(V, "bin"))
from checks import CHECKS
from manifest_meta import META, NOT_APPLICABLE, HOOKS, ENGINES, NOTES
checks = []
for pid in sorted(CHECKS):
    if pid not in META:
        continue
    m = META[pid]
    c = {"property_id": pid,
         "quick_cmd": "/verif/bin/vcheck %s quick" % pid,
         "thorough_cmd": "/verif/bin/vcheck %s thorough" % pid,
         "evidence_file": "/verif/evidence/%s.json" % pid,
         "replay_cmd_template": "/verif/bin/vcheck %s replay {path}" % pid,
         "engine": m["engine"],
         "level_claimed": {"category": CHECKS[pid]["level"], "text": m["text"], "design_ref": m["design_ref"]},
         "level_note": m["note"], "technique": m["technique"]}
    checks.append(c)
claimed = {c["property_id"] for c in checks}
allp = [json.loads(l)["id"] for l in open(os.path.join(V, "properties.jsonl"))]
na = [{"property_id": p, "reason": NOT_APPLICABLE.get(p, "check not built yet in this session (planned, see DESIGN.md §4)")} for p in allp if p not in claimed]
doc = {"version": 1,
       "setup_cmd": "/verif/bin/setup.sh",
       "hooks": HOOKS, "engines": ENGINES, "checks": checks, "notes": NOTES, "not_applicable": na}
json.dump(doc, open(os.path.join(V, "MANIFEST.json"), "w"), indent=1)
print("claimed:", sorted(claimed), "not claimed:", [x["property_id"] for x in na])
